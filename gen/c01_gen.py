"""C01: grammar-directed generator of (stylesheet, document) pairs inside the subset that
lean/XalanModel/C01/Spec.lean interprets.  One Python AST is rendered twice: as XML text for the
real processor and as tokens (flat node records + s-expression) for the Lean driver.

Termination of every generated stylesheet is by construction: xsl:apply-templates and the
for-each selects that may lead to template calls only move *down* the source tree,
xsl:call-template only calls named templates with a larger index.
All randomness comes from the Rng passed in.
"""

# ------------------------------------------------------------------------------------------
# strings <-> tokens

def enc(s):
    assert all(ord(c) < 128 for c in s), s
    return "-" if s == "" else "x" + s.encode("ascii").hex()


def xml_attr(s):
    return s.replace("&", "&amp;").replace("<", "&lt;").replace('"', "&quot;").replace(">", "&gt;")


def xml_text(s):
    return s.replace("&", "&amp;").replace("<", "&lt;").replace(">", "&gt;")


# ------------------------------------------------------------------------------------------
# documents: nested  ('E', name, [(an, av)...], [kids]) | ('T', s) | ('C', s) | ('P', target, data)

DOC_NS = {"p": "urn:p", "q": "urn:p", "xml": "http://www.w3.org/XML/1998/namespace"}          # two prefixes, one namespace, declared on the document element


def uri_of(qname):
    return DOC_NS.get(qname.split(":")[0], "") if ":" in qname else ""


def doc_xml(node, top=True):
    k = node[0]
    if k == "E":
        _, name, attrs, kids = node
        a = "".join(' %s="%s"' % (n, xml_attr(v)) for n, v in attrs)
        if top:
            a = ' xmlns:p="urn:p" xmlns:q="urn:p"' + a
        if not kids:
            return "<%s%s/>" % (name, a)
        return "<%s%s>%s</%s>" % (name, a, "".join(doc_xml(c, False) for c in kids), name)
    if k == "T":
        return xml_text(node[1])
    if k == "C":
        return "<!--%s-->" % node[1]
    if k == "P":
        return "<?%s %s?>" % (node[1], node[2]) if node[2] else "<?%s?>" % node[1]
    raise ValueError(k)


def doc_tokens(top):
    """top: list of top-level nodes (one element + comments/PIs). Flat records in document order,
    attributes directly after their element."""
    out = ["R - - 0 -"]
    n = [0]

    def walk(node, parent, dflt="", scope=DOC_NS):
        n[0] += 1
        me = n[0]
        k = node[0]
        if k == "E":
            # namespace declarations (written as the pseudo attributes "xmlns" / "xmlns:p") are not attribute nodes; the
            # default one gives the unprefixed element names below it their namespace (never the attribute names), a
            # prefixed one re-binds the prefix for the element, its attributes and everything below
            for an, av in node[2]:
                if an == "xmlns":
                    dflt = av
                elif an.startswith("xmlns:"):
                    scope = dict(scope)
                    scope[an[6:]] = av
            uri = lambda q: scope.get(q.split(":")[0], "") if ":" in q else ""
            out.append("E %s - %d %s" % (enc(node[1]), parent, enc(uri(node[1]) if ":" in node[1] else dflt)))
            for an, av in node[2]:
                if an == "xmlns" or an.startswith("xmlns:"):
                    continue
                n[0] += 1
                out.append("A %s %s %d %s" % (enc(an), enc(av), me, enc(uri(an))))
            for c in node[3]:
                walk(c, me, dflt, scope)
        elif k == "T":
            out.append("T - %s %d -" % (enc(node[1]), parent))
        elif k == "C":
            out.append("C - %s %d -" % (enc(node[1]), parent))
        elif k == "P":
            out.append("P %s %s %d -" % (enc(node[1]), enc(node[2]), parent))

    for t in top:
        walk(t, 0)
    return " ".join(out) + " ;"


# ------------------------------------------------------------------------------------------
# expressions

AXES = ["child", "attribute", "descendant", "descendant-or-self", "self", "parent", "ancestor",
        "ancestor-or-self", "following-sibling", "preceding-sibling"]


def test_txt(t):
    if isinstance(t, tuple):
        if t[0] == "piname":
            return "processing-instruction('%s')" % t[1]
        if t[0] == "nsstar":
            return t[1] + ":*"
        return t[1]
    return {"star": "*", "text": "text()", "node": "node()", "comment": "comment()", "pi": "processing-instruction()"}[t]


def test_tok(t):
    if isinstance(t, tuple):
        return "( %s %s )" % (t[0], enc(t[1]))
    return t


def step_txt(e):
    _, base, ax, t, preds = e
    s = "%s::%s" % (ax, test_txt(t)) + "".join("[%s]" % expr_txt(p) for p in preds)
    if base[0] == "ctx":
        return s
    if base[0] == "root":
        return "/" + s
    if base[0] == "step":
        return step_txt(base) + "/" + s
    return primary_txt(base) + "/" + s


def primary_txt(e):
    k = e[0]
    if k in ("var", "lit", "num", "fn"):
        return expr_txt(e)
    return "(" + expr_txt(e) + ")"


def expr_txt(e):
    k = e[0]
    if k == "lit":
        return "'%s'" % e[1]
    if k == "num":
        return str(e[1])
    if k == "var":
        return "$" + e[1]
    if k == "fn":
        return "%s(%s)" % (e[1], ", ".join(expr_txt(a) for a in e[2]))
    if k == "bin":
        return "(%s %s %s)" % (expr_txt(e[2]), e[1], expr_txt(e[3]))
    if k == "neg":
        return "-(%s)" % expr_txt(e[1])
    if k == "root":
        return "/"
    if k == "ctx":
        return "self::node()"
    if k == "step":
        return step_txt(e)
    if k == "filt":
        return "%s[%s]" % (primary_txt(e[1]), expr_txt(e[2]))
    raise ValueError(k)


def expr_tok(e):
    k = e[0]
    if k == "lit":
        return "( lit %s )" % enc(e[1])
    if k == "num":
        return "( num %d )" % e[1]
    if k == "var":
        return "( var %s )" % enc(e[1])
    if k == "fn":
        return "( fn %s %s )" % (e[1], " ".join(expr_tok(a) for a in e[2]))
    if k == "bin":
        return "( bin %s %s %s )" % (e[1], expr_tok(e[2]), expr_tok(e[3]))
    if k == "neg":
        return "( neg %s )" % expr_tok(e[1])
    if k == "root":
        return "( root )"
    if k == "ctx":
        return "( ctx )"
    if k == "step":
        return "( step %s %s %s ( %s ) )" % (expr_tok(e[1]), e[2], test_tok(e[3]), " ".join(expr_tok(p) for p in e[4]))
    if k == "filt":
        return "( filt %s %s )" % (expr_tok(e[1]), expr_tok(e[2]))
    raise ValueError(k)


def pattern_txt(p):
    """match-pattern syntax (abbreviated axes only)"""
    if p[0] == "root":
        return "/"
    if p[0] == "fn":
        return expr_txt(p)               # key('name', 'value') as the first step of a pattern
    _, base, ax, t, preds = p
    s = ("@" if ax == "attribute" else "") + test_txt(t) + "".join("[%s]" % expr_txt(q) for q in preds)
    if base[0] == "ctx":
        return s
    if base[0] == "root":
        return "/" + s
    return pattern_txt(base) + "/" + s


# ------------------------------------------------------------------------------------------
# instructions: dicts {'k': kind, ...}

def attr_xml(name, parts):
    """one attribute carrying an attribute value template.  A raw template ("raw", text, style) is written exactly as
    generated: style "dq" = name="..." with &quot; for the quotation mark, "sq" = name='...' with &apos; for the apostrophe,
    "ref" = both quote characters as character references -- so string literals of both styles are expressible"""
    if parts and parts[0][0] == "raw":
        t = parts[0][1].replace("&", "&amp;").replace("<", "&lt;")
        style = parts[0][2]
        if style == "sq":
            return " %s='%s'" % (name, t.replace("'", "&apos;"))
        if style == "ref":
            return ' %s="%s"' % (name, t.replace('"', "&#34;").replace("'", "&#39;"))
        return ' %s="%s"' % (name, t.replace('"', "&quot;"))
    return ' %s="%s"' % (name, xml_attr(avt_txt(parts)))


def avt_txt(parts):
    if parts and parts[0][0] == "raw":
        return parts[0][1]
    return "".join(p[1] if p[0] == "l" else "{%s}" % expr_txt(p[1]) for p in parts)


def avt_tok(parts):
    if parts and parts[0][0] == "raw":
        # the attribute's text as written: the Lean side splits it with its own parser (Avt.avtParse)
        return "( raw %s )" % enc(parts[0][1])
    return "( " + " ".join("( l %s )" % enc(p[1]) if p[0] == "l" else "( e %s )" % expr_tok(p[1]) for p in parts) + " )"


def sel_attr(name, e):
    return ' %s="%s"' % (name, xml_attr(expr_txt(e)))


def sort_xml(s):
    e, num, desc = s
    return '<xsl:sort%s%s%s/>' % (sel_attr("select", e), ' data-type="number"' if num else "", ' order="descending"' if desc else "")


def sort_tok(s):
    e, num, desc = s
    return "( sort %s %s %s )" % (expr_tok(e), "num" if num else "text", "desc" if desc else "asc")


def uses_of(body):
    if body and body[0]["k"] == "usesets":
        return " ".join(body[0]["names"])
    return None


def body_xml(body):
    return "".join(instr_xml(i) for i in body if i["k"] != "usesets")


def body_tok(body):
    return "( " + " ".join(instr_tok(i) for i in body) + " )"


def varlike_xml(tag, i):
    s = "<xsl:%s name=\"%s\"" % (tag, i["name"])
    if i["select"] is not None:
        return s + sel_attr("select", i["select"]) + "/>"
    if not i["body"]:
        return s + "/>"
    return s + ">" + body_xml(i["body"]) + "</xsl:%s>" % tag


def varlike_tok(tag, i):
    return "( %s %s %s %s )" % (tag, enc(i["name"]), "none" if i["select"] is None else expr_tok(i["select"]), body_tok(i["body"]))


def instr_xml(i):
    k = i["k"]
    if k == "text":
        if i.get("xsl"):
            return "<xsl:text>%s</xsl:text>" % xml_text(i["s"])
        return xml_text(i["s"])
    if k == "valueof":
        return "<xsl:value-of%s/>" % sel_attr("select", i["e"])
    if k == "lre":
        a = "".join(attr_xml(n, v) for n, v in i["attrs"])
        u = uses_of(i["body"])
        if u:
            a += ' xsl:use-attribute-sets="%s"' % u
        return "<%s%s>%s</%s>" % (i["name"], a, body_xml(i["body"]), i["name"])
    if k == "element":
        u = uses_of(i["body"])
        ns = ' namespace="%s"' % xml_attr(avt_txt(i["ns"])) if i.get("ns") is not None else ""
        return '<xsl:element name="%s"%s%s>%s</xsl:element>' % (xml_attr(avt_txt(i["name"])), ns, ' use-attribute-sets="%s"' % u if u else "", body_xml(i["body"]))
    if k == "attribute":
        ns = ' namespace=""' if i.get("nsempty") else ""
        if i.get("ns") is not None:
            ns = ' namespace="%s"' % xml_attr(avt_txt(i["ns"]))
        return '<xsl:attribute name="%s"%s>%s</xsl:attribute>' % (xml_attr(avt_txt(i["name"])), ns, body_xml(i["body"]))
    if k == "comment":
        return "<xsl:comment>%s</xsl:comment>" % body_xml(i["body"])
    if k == "pi":
        return '<xsl:processing-instruction name="%s">%s</xsl:processing-instruction>' % (xml_attr(avt_txt(i["name"])), body_xml(i["body"]))
    if k == "copy":
        u = uses_of(i["body"])
        return "<xsl:copy%s>%s</xsl:copy>" % (' use-attribute-sets="%s"' % u if u else "", body_xml(i["body"]))
    if k == "copyof":
        return "<xsl:copy-of%s/>" % sel_attr("select", i["e"])
    if k == "apply":
        s = "<xsl:apply-templates"
        if i["select"] is not None:
            s += sel_attr("select", i["select"])
        if i["mode"] is not None:
            s += ' mode="%s"' % i["mode"]
        inner = "".join(sort_xml(x) for x in i["sorts"]) + body_xml(i["params"])
        return s + ("/>" if not inner else ">" + inner + "</xsl:apply-templates>")
    if k == "call":
        inner = body_xml(i["params"])
        s = '<xsl:call-template name="%s"' % i["name"]
        return s + ("/>" if not inner else ">" + inner + "</xsl:call-template>")
    if k == "foreach":
        return "<xsl:for-each%s>%s%s</xsl:for-each>" % (sel_attr("select", i["select"]), "".join(sort_xml(x) for x in i["sorts"]), body_xml(i["body"]))
    if k == "if":
        return "<xsl:if%s>%s</xsl:if>" % (sel_attr("test", i["test"]), body_xml(i["body"]))
    if k == "choose":
        s = "<xsl:choose>" + body_xml(i["whens"])
        if i["otherwise"] is not None:
            s += "<xsl:otherwise>%s</xsl:otherwise>" % body_xml(i["otherwise"])
        return s + "</xsl:choose>"
    if k == "when":
        return "<xsl:when%s>%s</xsl:when>" % (sel_attr("test", i["test"]), body_xml(i["body"]))
    if k == "applyimports":
        return "<xsl:apply-imports/>"
    if k == "number":
        if i["value"] is not None:
            return '<xsl:number value="%s" format="%s"/>' % (xml_attr(expr_txt(i["value"])), xml_attr(i["format"]))
        cnt = ' count="%s"' % xml_attr(" | ".join(pattern_txt(p) for p in i["count"])) if i.get("count") else ""
        frm = ' from="%s"' % xml_attr(" | ".join(pattern_txt(p) for p in i["from"])) if i.get("from") else ""
        return '<xsl:number level="%s"%s%s format="%s"/>' % (i.get("level", "single"), cnt, frm, xml_attr(i["format"]))
    if k == "variable":
        return varlike_xml("variable", i)
    if k == "param":
        return varlike_xml("param", i)
    if k == "withparam":
        return varlike_xml("with-param", i)
    raise ValueError(k)


def instr_tok(i):
    k = i["k"]
    if k == "text":
        return "( text %s )" % enc(i["s"])
    if k == "valueof":
        return "( valueof %s )" % expr_tok(i["e"])
    if k == "lre":
        a = " ".join("( %s %s )" % (enc(n), avt_tok(v)) for n, v in i["attrs"])
        return "( lre %s ( %s ) %s )" % (enc(i["name"]), a, body_tok(i["body"]))
    if k == "element":
        if i.get("ns") is not None:
            return "( elementNS %s %s %s )" % (avt_tok(i["name"]), avt_tok(i["ns"]), body_tok(i["body"]))
        return "( element %s %s )" % (avt_tok(i["name"]), body_tok(i["body"]))
    if k == "attribute" and i.get("ns") is not None:
        return "( attributeNS %s %s %s )" % (avt_tok(i["name"]), avt_tok(i["ns"]), body_tok(i["body"]))
    if k == "attribute":
        return "( %s %s %s )" % ("attributeN" if i.get("nsempty") else "attribute", avt_tok(i["name"]), body_tok(i["body"]))
    if k == "comment":
        return "( comment %s )" % body_tok(i["body"])
    if k == "pi":
        return "( pi %s %s )" % (avt_tok(i["name"]), body_tok(i["body"]))
    if k == "copy":
        return "( copy %s )" % body_tok(i["body"])
    if k == "copyof":
        return "( copyof %s )" % expr_tok(i["e"])
    if k == "apply":
        return "( apply %s %s ( %s ) %s )" % ("none" if i["select"] is None else expr_tok(i["select"]),
                                               "none" if i["mode"] is None else enc(i["mode"]),
                                               " ".join(sort_tok(x) for x in i["sorts"]), body_tok(i["params"]))
    if k == "call":
        return "( call %s %s )" % (enc(i["name"]), body_tok(i["params"]))
    if k == "foreach":
        return "( foreach %s ( %s ) %s )" % (expr_tok(i["select"]), " ".join(sort_tok(x) for x in i["sorts"]), body_tok(i["body"]))
    if k == "if":
        return "( if %s %s )" % (expr_tok(i["test"]), body_tok(i["body"]))
    if k == "choose":
        return "( choose %s %s )" % (body_tok(i["whens"]), body_tok(i["otherwise"] or []))
    if k == "when":
        return "( when %s %s )" % (expr_tok(i["test"]), body_tok(i["body"]))
    if k in ("variable", "param", "withparam"):
        return varlike_tok(k, i)
    if k == "usesets":
        return "( usesets %s )" % " ".join(enc(n) for n in i["names"])
    if k == "applyimports":
        return "( applyimports )"
    if k == "number":
        return "( number %s %s ( %s ) %s ( %s ) )" % ("none" if i["value"] is None else expr_tok(i["value"]), i.get("level", "single"),
                                                      " ".join(expr_tok(p) for p in i.get("count", [])), enc(i["format"]),
                                                      " ".join(expr_tok(p) for p in i.get("from", [])))
    raise ValueError(k)


def attrset_xml(a):
    return '<xsl:attribute-set name="%s"%s>%s</xsl:attribute-set>' % (
        a["name"], ' use-attribute-sets="%s"' % " ".join(a["uses"]) if a["uses"] else "", body_xml(a["body"]))


def attrset_tok(a):
    return "( attrset %s %d ( %s ) %s )" % (enc(a["name"]), a.get("prec", 0), " ".join(enc(u) for u in a["uses"]), body_tok(a["body"]))


def key_xml(k):
    return '<xsl:key name="%s" match="%s" use="%s"/>' % (k["name"], xml_attr(" | ".join(pattern_txt(p) for p in k["pats"])), xml_attr(expr_txt(k["use"])))


def key_tok(k):
    return "( key %s ( %s ) %s )" % (enc(k["name"]), " ".join(expr_tok(p) for p in k["pats"]), expr_tok(k["use"]))


def template_xml(t):
    s = "<xsl:template"
    if t["pats"]:
        s += ' match="%s"' % xml_attr(" | ".join(pattern_txt(p) for p in t["pats"]))
    if t["name"] is not None:
        s += ' name="%s"' % t["name"]
    if t["mode"] is not None:
        s += ' mode="%s"' % t["mode"]
    if t["prio"] is not None:
        # prio is kept in halves
        s += ' priority="%s"' % (str(t["prio"] // 2) if t["prio"] % 2 == 0 else "%s.5" % ("-0" if t["prio"] == -1 else str((t["prio"] - 1) // 2) if t["prio"] > 0 else "-" + str((-t["prio"]) // 2)))
    return s + ">" + body_xml(t["body"]) + "</xsl:template>"


def template_tok(t):
    return "( template ( %s ) %s %s %s %d %d %s )" % (" ".join(expr_tok(p) for p in t["pats"]),
                                                       "none" if t["name"] is None else enc(t["name"]),
                                                       "none" if t["mode"] is None else enc(t["mode"]),
                                                       "none" if t["prio"] is None else str(t["prio"]),
                                                       t.get("prec", 0), t.get("low", 0), body_tok(t["body"]))


XSL_OPEN = '<xsl:stylesheet xmlns:xsl="http://www.w3.org/1999/XSL/Transform" xmlns:p="urn:p" version="1.0">'


def stylesheet_modules(ss):
    """[main, i1.xsl, i2.xsl, …].  ss["modules"][k] = {"imports": [file numbers], "includes": [file numbers]}; a template /
    attribute set lives in file t["mod"].  xsl:import elements come first, xsl:include elements last."""
    mods = ss.get("modules") or [{"imports": [], "includes": []}]
    out_all = []
    for k, m in enumerate(mods):
        out = XSL_OPEN
        if ss.get("alias"):
            # literal result elements / attributes written in urn:p come out in urn:q (XSLT 7.1.1)
            out = out.replace(' version="1.0">', ' xmlns:q="urn:q" version="1.0">')
        out += "".join('<xsl:import href="i%d.xsl"/>' % j for j in m["imports"])
        if k == 0 and ss.get("alias"):
            out += '<xsl:namespace-alias stylesheet-prefix="p" result-prefix="q"/>'
        if k == 0:
            out += ('<xsl:strip-space elements="%s"/>' % " ".join(ss["strip"]) if ss.get("strip") else "")
        out += "".join(key_xml(x) for x in ss.get("keys", []) if x.get("mod", 0) == k)
        out += "".join(varlike_xml(g["k"], g) for g in ss["globals"] if g.get("mod", 0) == k)
        out += "".join(attrset_xml(a) for a in ss.get("attrsets", []) if a.get("mod", 0) == k)
        out += "".join(template_xml(t) for t in ss["templates"] if t.get("mod", 0) == k)
        out += "".join('<xsl:include href="i%d.xsl"/>' % j for j in m["includes"])
        out_all.append(out + "</xsl:stylesheet>")
    return out_all


def plan_modules(r):
    """a random import tree (+ at most one include); returns the module list and, per file, (precedence, low)"""
    shape = r.choice(["A", "A>C", "A,B", "A>C,B"])
    mods = [{"imports": [], "includes": []}]

    def new():
        mods.append({"imports": [], "includes": []})
        return len(mods) - 1
    a = new()
    mods[0]["imports"].append(a)
    if ">C" in shape:
        c = new()
        mods[a]["imports"].append(c)
    if ",B" in shape:
        b = new()
        mods[0]["imports"].append(b)
    if r.chance(1, 2):
        host = r.choice([0, a])
        inc = new()
        mods[host]["includes"].append(inc)
    # post-order numbering of the import tree; included files share the includer's numbers
    prec = {}
    counter = [0]

    def visit(k):
        lo = counter[0]
        for j in mods[k]["imports"]:
            visit(j)
            # imports of an included file would count for the includer; none are generated
        p = counter[0]
        counter[0] += 1
        prec[k] = (p, lo)
        for j in mods[k]["includes"]:
            prec[j] = (p, lo)
    visit(0)
    return mods, prec


def stylesheet_xml(ss):
    return " || ".join(stylesheet_modules(ss))


def stylesheet_tok(ss):
    return "( stylesheet ( %s ) ( %s ) ( %s ) ( %s ) ( %s ) ( %s ) )" % (" ".join(varlike_tok(g["k"], g) for g in ss["globals"]),
                                                                  " ".join(template_tok(t) for t in ss["templates"]),
                                                                  " ".join(attrset_tok(a) for a in ss.get("attrsets", [])),
                                                                  " ".join(key_tok(k) for k in ss.get("keys", [])),
                                                                  " ".join(enc(x) for x in ss.get("strip", [])),
                                                                  # xsl:namespace-alias as (stylesheet URI, result URI) pairs
                                                                  " ".join("( %s %s )" % (enc(a), enc(b)) for a, b in ss.get("alias", [])))


def request_line(cid, ss, doc_top, verb="xslt"):
    xml = "".join(doc_xml(t) for t in doc_top)
    return "%s %s %s %s D %s %s" % (verb, cid, ",".join(m.encode("ascii").hex() for m in stylesheet_modules(ss)), xml.encode("ascii").hex(),
                                       doc_tokens(doc_top), stylesheet_tok(ss))


# ------------------------------------------------------------------------------------------
# random generation

ROOT_REACHING = ("ancestor", "ancestor-or-self", "parent", "self", "descendant-or-self")
ENAMES = ["a", "b", "c", "d"]
ANAMES = ["x", "y", "n"]
VALUES = ["1", "2", "3", "10", "7", "0", "-4", "ab", "b", "abc", "a c", " 7 ", "x1", "12"]
TEXTS = VALUES + [" ", "  ", " \n"]          # text nodes may be whitespace only (xsl:strip-space)
LITS = ["a", "b", "ab", "1", "x1", "", " ", "7", "abc", "-"]
OUTNAMES = ["out", "p", "q", "item", "e1", "w"]


class Gen:
    def __init__(self, r, size=2, fragment=False):
        self.r = r
        self.size = size          # 1 small, 2 medium, 3 large
        self.narrow = fragment == "narrow"  # the sub-fragment core_refines_spec_total is proved for (no xsl:attribute / copy-of / comment / pi)
        self.fragment = fragment  # only the instruction kinds of the Core fragment (lean/XalanModel/C01/Core.lean)
        self.modes = []
        self.named = []           # names of named templates, in stylesheet order of "call level"
        self.named_params = {}
        self.varctr = 0
        self.features = set()
        self.sets = []
        self.keys = []
        self.ns = False           # namespaced names in the document and in the stylesheet (prefix p = urn:p)
        self.xmlspace = False     # xml:space attributes and extra whitespace-only text in the document
        self.imports = 0
        self.nopos = False        # inside top-level variable selects: no position()/last() (evaluated lazily by the processor)

    # ---- documents
    def gen_doc(self):
        r = self.r
        budget = [r.range(4 + 2 * self.size, 8 + 6 * self.size)]

        def elem(depth):
            budget[0] -= 1
            name = r.choice(ENAMES)
            if self.ns and r.chance(1, 3):
                name = r.choice(["p:", "q:"]) + r.choice(ENAMES[:2])
            attrs = []
            for an in ANAMES:
                if r.chance(1, 3):
                    attrs.append((an, r.choice(VALUES)))
            if self.ns and r.chance(1, 4):
                attrs.append((r.choice(["p:x", "q:x"]), r.choice(VALUES)))
            if self.ns and depth > 0 and r.chance(1, 6):
                # default namespace: the unprefixed elements from here down are in urn:d (or, nested, in none again)
                attrs.append(("xmlns", r.choice(["urn:d", "urn:d", "urn:p", ""])))
                self.features.add("doc-default-namespace")
            if self.ns and depth > 0 and r.chance(1, 4 if not getattr(self, "rebind", False) else 2):
                # the same prefix bound to another URI at this depth (and possibly back again further down)
                attrs.append(("xmlns:" + r.choice(["p", "p", "q"]), r.choice(["urn:o", "urn:o", "urn:p", "urn:d"])))
                self.features.add("doc-prefix-rebound")
            if self.xmlspace and r.chance(1, 3):
                # xml:space: "preserve" keeps whitespace-only text below it from xsl:strip-space, a nearer "default" cancels that
                attrs.append(("xml:space", r.choice(["preserve", "preserve", "default"])))
            kids = []
            nk = (r.range(2, 4) if depth == 0 else r.range(0, 4)) if depth < 3 else 0
            last_text = False
            for _ in range(nk):
                if budget[0] <= 0:
                    break
                c = r.weighted([("E", 6), ("T", 4), ("C", 1), ("P", 1)])
                if c == "T":
                    if last_text:
                        continue
                    kids.append(("T", r.choice([" ", "  ", " \n"]) if (self.xmlspace and r.chance(1, 2)) else r.choice(TEXTS)))
                    last_text = True
                    budget[0] -= 1
                    continue
                last_text = False
                if c == "E":
                    kids.append(elem(depth + 1))
                elif c == "C":
                    kids.append(("C", r.choice(["c1", "note", ""])))
                    budget[0] -= 1
                else:
                    kids.append(("P", r.choice(["p1", "pp"]), r.choice(["d", "", "k v"])))
                    budget[0] -= 1
            return ("E", name, attrs, kids)

        rootel = elem(0)
        if r.chance(1, 4):
            # runs of same-named siblings (counters, keys and sort keys then have something to cache)
            extra = [("E", r.choice(ENAMES[:2]), [("n", r.choice(VALUES))] if r.chance(1, 2) else [], []) for _ in range(r.range(2, 5))]
            rootel = ("E", rootel[1], rootel[2], list(rootel[3]) + extra)
        rootel = ("E", "r", rootel[2], rootel[3])
        top = []
        if r.chance(1, 8):
            top.append(("C", "pre"))
        top.append(rootel)
        if r.chance(1, 10):
            top.append(("P", "p1", "post"))
        return top

    # ---- expressions (type directed)
    def nametest(self, attr=False, inner=False, ax=None):
        r = self.r
        if attr:
            if self.ns and r.chance(1, 4):
                return ("name", "p:x")
            return r.weighted([(("name", r.choice(ANAMES)), 4), ("star", 1)])
        if False and ax in ROOT_REACHING:
            # element tests only: a node-set in which the document node is merged with other nodes is
            # mis-ordered / not de-duplicated by the processor (C12's subject; recorded corpus cases)
            return r.weighted([(("name", r.choice(ENAMES + ["r"])), 5), ("star", 4)])
        if self.ns and r.chance(1, 3):
            return ("name", "p:" + r.choice(ENAMES[:2]))
        if inner:
            return r.weighted([(("name", r.choice(ENAMES)), 5), ("star", 4), ("node", 1)])
        return r.weighted([(("name", r.choice(ENAMES)), 6), ("star", 3), ("text", 2), ("node", 2), ("comment", 1), ("pi", 1)])

    def preds(self, env, depth):
        r = self.r
        if depth <= 0 or not r.chance(1, 4):
            return []
        p = r.weighted([("num", 3), ("last", 1), ("bool", 4), ("posrel", 2)])
        if p == "num":
            return [("num", r.range(1, 3))]
        if p == "last":
            return [("fn", "last", [])]
        if p == "posrel":
            return [("bin", r.choice(["<", ">", "!=", "<=", ">=", "="]), ("fn", "position", []), ("num", r.range(1, 3)))]
        return [self.gen_bool(env, depth - 1)]

    def down_path(self, env, depth, allow_attr=True):
        """relative location path that only moves down (child/descendant/attribute axes)"""
        r = self.r
        e = ("ctx",)
        n = r.weighted([(1, 6), (2, 3), (3, 1)])
        for k in range(n):
            last = k == n - 1
            ax = r.weighted([("child", 8), ("descendant", 2), ("attribute", 2 if (last and allow_attr) else 0)])
            t = self.nametest(attr=(ax == "attribute"), inner=not last)
            e = ("step", e, ax, t, self.preds(env, depth))
        return e

    def gen_ns(self, env, depth):
        r = self.r
        c = r.weighted([("down", 8), ("any", 4), ("abs", 2), ("var", 3), ("union", 1), ("filt", 1), ("self", 1),
                        ("key", 2 if self.keys else 0)])
        if depth <= 0:
            c = "down"
        if c == "key":
            v = r.weighted([(("lit", r.choice(VALUES)), 4), (self.gen_str(env, depth - 1), 2), (self.down_path(env, depth - 1), 2)])
            return ("fn", "key", [("lit", r.choice(self.keys)), v])
        if c == "down":
            return self.down_path(env, depth)
        if c == "self":
            return ("ctx",) if r.chance(1, 2) else ("fn", "current", [])
        if c == "any":
            e = ("ctx",) if not r.chance(1, 5) else ("fn", "current", [])
            for _ in range(r.range(1, 2)):
                ax = r.choice(AXES)
                e = ("step", e, ax, self.nametest(attr=(ax == "attribute"), ax=ax), self.preds(env, depth))
            return e
        if c == "abs":
            e = ("root",)
            if r.chance(1, 6):
                return ("step", e, "self", "node", [])
            ax = r.weighted([("child", 3), ("descendant", 3), ("descendant-or-self", 1)])
            more = r.chance(1, 2)
            e = ("step", e, ax, self.nametest(inner=more), self.preds(env, depth))
            if more:
                ax = r.weighted([("child", 4), ("attribute", 2)])
                e = ("step", e, ax, self.nametest(attr=(ax == "attribute")), self.preds(env, depth))
            return e
        if c == "var":
            vs = [v for v, t in env if t in ("ns", "nsdown")]
            if not vs:
                return self.down_path(env, depth)
            e = ("var", r.choice(vs))
            if r.chance(1, 2):
                ax = r.weighted([("child", 4), ("attribute", 2), ("parent", 1), ("descendant", 1)])
                e = ("step", e, ax, self.nametest(attr=(ax == "attribute"), ax=ax), self.preds(env, depth))
            return e
        if c == "union":
            # operands that can never contain the document node (see nametest)
            def operand():
                if r.chance(1, 3):
                    ax = r.weighted([("child", 3), ("descendant", 3)])
                    return ("step", ("root",), ax, self.nametest(inner=True, ax="self"), self.preds(env, depth - 1))
                return self.down_path(env, depth - 1)
            return ("bin", "|", operand(), operand())
        if c == "filt":
            return ("filt", self.gen_ns(env, depth - 1), self.preds(env, 1)[0] if False else r.choice([("num", 1), ("fn", "last", []), self.gen_bool(env, depth - 1)]))
        raise ValueError(c)

    def any_var(self, env):
        vs = [v for v, t in env]
        return ("var", self.r.choice(vs)) if vs else None

    def gen_str(self, env, depth):
        r = self.r
        c = r.weighted([("lit", 3), ("ns", 6), ("fn0", 2), ("concat", 2), ("num", 2), ("var", 3), ("name", 2), ("norm", 1), ("bool", 1),
                        ("subba", 1), ("translate", 1), ("substring", 1)])
        if depth <= 0:
            c = r.choice(["lit", "fn0"])
        if c == "subba":
            # no empty second argument: substring-after(x, '') returns x itself without converting it to a string in
            # the processor (a node-set stays a node-set; C02's subject)
            return ("fn", r.choice(["substring-before", "substring-after"]), [self.gen_str(env, depth - 1), ("lit", r.choice(["a", "b", " ", "1", "c"]))])
        if c == "translate":
            return ("fn", "translate", [self.gen_str(env, depth - 1), ("lit", r.choice(["ab", "a", "1 ", "abc", ""])), ("lit", r.choice(["xy", "", "z", "ba"]))])
        if c == "substring":
            args = [self.gen_str(env, depth - 1), r.choice([("num", r.range(0, 3)), self.gen_num(env, depth - 1)])]
            if r.chance(1, 2):
                args.append(r.choice([("num", r.range(0, 3)), self.gen_num(env, depth - 1)]))
            return ("fn", "substring", args)
        if c == "lit":
            return ("lit", r.choice(LITS))
        if c == "ns":
            e = self.gen_ns(env, depth - 1)
            return e if r.chance(1, 2) else ("fn", "string", [e])
        if c == "fn0":
            return ("fn", r.choice(["string", "name", "normalize-space", "local-name"]), [])
        if c == "concat":
            return ("fn", "concat", [self.gen_str(env, depth - 1) for _ in range(r.range(2, 3))])
        if c == "num":
            return ("fn", "string", [self.gen_num(env, depth - 1)])
        if c == "var":
            v = self.any_var(env)
            return ("fn", "string", [v]) if v else ("lit", "b")
        if c == "name":
            return ("fn", r.choice(["name", "local-name"]), [self.gen_ns(env, depth - 1)])
        if c == "norm":
            return ("fn", "normalize-space", [self.gen_str(env, depth - 1)])
        if c == "bool":
            return ("fn", "string", [self.gen_bool(env, depth - 1)])
        raise ValueError(c)

    def gen_num(self, env, depth):
        r = self.r
        c = r.weighted([("lit", 3), ("count", 4), ("pos", 3), ("arith", 3), ("number", 3), ("sum", 1), ("strlen", 1), ("neg", 1), ("var", 1), ("round", 1)])
        if depth <= 0:
            c = r.choice(["lit", "pos"])
        if c == "round":
            return ("fn", r.choice(["floor", "ceiling", "round"]), [self.gen_num(env, depth - 1)])
        if c == "lit":
            return ("num", r.range(0, 9))
        if c == "count":
            return ("fn", "count", [self.gen_ns(env, depth - 1)])
        if c == "pos":
            if self.nopos:
                return ("num", r.range(0, 9))
            return ("fn", r.choice(["position", "last"]), [])
        if c == "arith":
            if r.chance(1, 4):
                # division only by a power of two: every value stays an exactly representable dyadic rational
                return ("bin", "div", self.gen_num(env, depth - 1), ("num", r.choice([2, 2, 4, 8])))
            return ("bin", r.choice(["+", "-", "*", "mod"]), self.gen_num(env, depth - 1), self.gen_num(env, depth - 1))
        if c == "number":
            if r.chance(1, 4):
                return ("fn", "number", [])
            return ("fn", "number", [r.choice([self.gen_ns, self.gen_str])(env, depth - 1)])
        if c == "sum":
            return ("fn", "sum", [self.gen_ns(env, depth - 1)])
        if c == "strlen":
            return ("fn", "string-length", [self.gen_str(env, depth - 1)] if r.chance(2, 3) else [])
        if c == "neg":
            return ("neg", self.gen_num(env, depth - 1))
        if c == "var":
            v = self.any_var(env)
            return ("fn", "number", [v]) if v else ("num", 1)
        raise ValueError(c)

    def gen_bool(self, env, depth):
        r = self.r
        c = r.weighted([("ns", 4), ("cmp", 6), ("not", 2), ("andor", 2), ("fn", 1), ("strfn", 2), ("var", 1), ("const", 1)])
        if depth <= 0:
            c = r.choice(["const", "ns0"])
        if c == "ns0":
            return self.down_path(env, 0)
        if c == "ns":
            return self.gen_ns(env, depth - 1)
        if c == "cmp":
            op = r.choice(["=", "!=", "<", "<=", ">", ">="])
            kinds = [self.gen_ns, self.gen_str, self.gen_num]
            a = r.choice(kinds)(env, depth - 1)
            b = r.choice(kinds + [self.gen_bool])(env, depth - 1)
            if r.chance(1, 2):
                a, b = b, a
            return ("bin", op, a, b)
        if c == "not":
            return ("fn", "not", [self.gen_bool(env, depth - 1)])
        if c == "andor":
            return ("bin", r.choice(["and", "or"]), self.gen_bool(env, depth - 1), self.gen_bool(env, depth - 1))
        if c == "fn":
            return ("fn", "boolean", [r.choice([self.gen_str, self.gen_num, self.gen_ns])(env, depth - 1)])
        if c == "strfn":
            return ("fn", r.choice(["starts-with", "contains"]), [self.gen_str(env, depth - 1), self.gen_str(env, depth - 1)])
        if c == "var":
            v = self.any_var(env)
            return ("fn", "boolean", [v]) if v else ("fn", "true", [])
        if c == "const":
            return ("fn", r.choice(["true", "false"]), [])
        raise ValueError(c)

    def gen_value(self, env, depth):
        """expression of any type + its static type"""
        r = self.r
        t = r.weighted([("ns", 4), ("str", 4), ("num", 3), ("bool", 1)])
        if t == "ns":
            if r.chance(2, 3):
                return self.down_path(env, depth), "nsdown"
            return self.gen_ns(env, depth), "ns"
        return {"str": self.gen_str, "num": self.gen_num, "bool": self.gen_bool}[t](env, depth), t

    # ---- instructions
    def fresh_var(self):
        self.varctr += 1
        return "v%d" % self.varctr

    def sorts(self, env):
        r = self.r
        if self.fragment or not r.chance(1, 3):
            return []
        res = []
        for _ in range(r.weighted([(1, 4), (2, 1)])):
            num = r.chance(1, 2)
            e = r.weighted([(("step", ("ctx",), "attribute", ("name", r.choice(ANAMES)), []), 4), (("ctx",), 3),
                            (("fn", "name", []), 2), (("fn", "count", [("step", ("ctx",), "child", "node", [])]), 1),
                            (self.gen_str(env, 1), 2)])
            res.append((e, num, r.chance(1, 3)))
        self.features.add("sort")
        return res

    def with_params(self, env, depth, names):
        r = self.r
        res = []
        if self.fragment:
            return res
        for n in names:
            if r.chance(1, 2):
                if r.chance(1, 4) and depth > 0:
                    res.append({"k": "withparam", "name": n, "select": None, "body": self.text_body(env, depth - 1)})
                else:
                    e, _ = self.gen_value(env, 1)
                    res.append({"k": "withparam", "name": n, "select": e, "body": []})
        if res:
            self.features.add("with-param")
        return res

    def text_body(self, env, depth):
        """instructions that only create text (for attribute / comment / pi / some variables)"""
        r = self.r
        res = []
        for _ in range(r.range(0, 2)):
            c = r.weighted([("text", 4), ("valueof", 5), ("if", 1 if depth > 0 else 0), ("foreach", 1 if depth > 0 else 0)])
            if c == "text":
                res.append({"k": "text", "s": r.choice(["t", "ab", "1", "k "]), "xsl": r.chance(1, 3)})
            elif c == "valueof":
                res.append({"k": "valueof", "e": self.gen_str(env, 1)})
            elif c == "if":
                res.append({"k": "if", "test": self.gen_bool(env, 1), "body": self.text_body(env, depth - 1)})
            else:
                res.append({"k": "foreach", "select": self.down_path(env, 1), "sorts": [], "body": self.text_body(env, depth - 1)})
        return res

    def ns_avt(self):
        """value of a namespace= attribute (XSLT 7.1.2 / 7.1.3): a literal URI, the empty string, or computed"""
        r = self.r
        return r.weighted([([("l", "urn:q")], 4), ([("l", "urn:p")], 3), ([("l", "urn:o")], 2), ([("l", "")], 1),
                           ([("l", "urn:"), ("e", ("fn", "name", []))], 2), ([("e", ("fn", "substring", [("lit", "urn:q"), ("num", 1), ("fn", "position", [])]))], 1)])


    def raw_avt(self):
        """an attribute value template as TEXT (XSLT 7.6.2), valid by construction: fixed parts with the escapes {{ and }}
        (also directly next to an expression) and quote characters; one to three {expression} parts; inside them string
        literals in BOTH quote styles holding braces, doubled braces and the other quote character, as arguments of nested
        function calls; empty fixed parts between expressions"""
        r = self.r

        def fixed():
            return "".join(r.choice(["a", "b", "1", " ", "-", ":", "{{", "}}", "{{", "}}", "'", '"', "x"]) for _ in range(r.weighted([(0, 3), (1, 3), (2, 2), (3, 1)])))

        def strlit():
            q = r.choice(["'", '"'])
            other = '"' if q == "'" else "'"
            return q + "".join(r.choice(["{", "}", "{{", "}}", other, "a", "z", " ", "{x}", "}{"]) for _ in range(r.range(0, 4))) + q

        def expr(depth):
            c = r.weighted([("lit", 5), ("concat", 3 if depth > 0 else 0), ("slen", 1 if depth > 0 else 0), ("translate", 1 if depth > 0 else 0),
                            ("sa", 1 if depth > 0 else 0), ("name", 1), ("attr", 1), ("dot", 1), ("num", 1)])
            if c == "lit":
                return strlit()
            if c == "concat":
                return "concat(%s)" % r.choice([", ", ","]).join(expr(depth - 1) for _ in range(r.range(2, 3)))
            if c == "slen":
                return "string-length(%s)" % expr(depth - 1)
            if c == "translate":
                return "translate(%s, %s, %s)" % (expr(depth - 1), strlit(), strlit())
            if c == "sa":
                return "%s(%s, %s)" % (r.choice(["substring-after", "substring-before"]), expr(depth - 1), strlit())
            if c == "name":
                return "name()"
            if c == "attr":
                return "@" + r.choice(ANAMES)
            if c == "num":
                return str(r.range(0, 12))
            return "."
        t = fixed()
        for _ in range(r.weighted([(1, 4), (2, 3), (3, 1)])):
            t += "{" + r.choice(["", " "]) + expr(2) + "}" + (fixed() if r.chance(2, 3) else "")
        self.features.add("raw-avt")
        return [("raw", t, r.choice(["dq", "sq", "ref"]))]

    def attr_instr(self, env, depth, late=False):
        r = self.r
        name = [("l", ("p:" if (self.ns and r.chance(1, 4)) else "") + r.choice(["k", "x", "id", "y"]))]
        if r.chance(1, 5) and not self.fragment:
            name.append(("e", ("fn", "position", [])))
        i = {"k": "attribute", "name": name, "body": self.text_body(env, min(depth, 1))}
        if r.chance(1, 6):
            i["nsempty"] = True
        elif not self.fragment and r.chance(1, 6):
            i["ns"] = self.ns_avt()
            self.features.add("attribute-namespace")
        self.features.add("attribute-late" if late else "attribute")
        return i

    def gen_body(self, env, depth, tctx, in_elem=False, sets_ok=True):
        """list of instructions; env is extended by xsl:variable for the following siblings"""
        r = self.r
        env = list(env)
        res = []
        n = r.range(1, 2 + self.size) if depth > 0 else r.range(1, 2)
        if in_elem and sets_ok and self.sets and r.chance(1, 6):
            res.append({"k": "usesets", "names": r.shuffle(self.sets)[: r.range(1, len(self.sets))]})
            self.features.add("use-attribute-sets")
        if in_elem and not self.narrow:
            for _ in range(r.weighted([(0, 5), (1, 3), (2, 1)])):
                res.append(self.attr_instr(env, depth))
        for _ in range(n):
            res.extend(self.gen_instr(env, depth, tctx))
        if in_elem and not self.narrow and r.chance(1, 12):
            res.append(self.attr_instr(env, depth, late=True))
        self.reexecute(res)
        return res

    def reexecute(self, res):
        """RE-EXECUTION: run the same invocation again later in the same body, so that the templates / named templates
        it reaches (and every per-instruction cache in them: xsl:number counters, key tables, sort keys, AVTs) are
        executed a second or third time on the same nodes — in the same or in reverse order."""
        r = self.r
        if self.fragment or not r.chance(1, 4):
            return
        import copy as _copy
        cand = [i for i, x in enumerate(res) if x["k"] in ("apply", "call") or (x["k"] == "foreach" and not x.get("sorts"))]
        if not cand:
            return
        j = r.choice(cand)
        for _ in range(r.weighted([(1, 4), (2, 1)])):
            dup = _copy.deepcopy(res[j])
            if dup["k"] in ("apply", "foreach") and not dup.get("sorts") and r.chance(1, 3):
                dup["sorts"] = [(("fn", "position", []), True, True)]       # same nodes, reverse order
            res.insert(r.range(j + 1, len(res)), dup)
        self.features.add("re-execution")

    def gen_instr(self, env, depth, tctx):
        r = self.r
        w = [("text", 5), ("valueof", 7), ("lre", 5 if depth > 0 else 0), ("element", 2 if depth > 0 else 0),
             ("copy", 2 if depth > 0 else 0), ("copyof", 3), ("apply", 6), ("call", 3 if self.callable(tctx) else 0),
             ("foreach", 4 if depth > 0 else 0), ("if", 3 if depth > 0 else 0), ("choose", 2 if depth > 0 else 0),
             ("variable", 4), ("comment", 1), ("pi", 1), ("xtext", 1), ("number", 2)]
        if self.imports and tctx.get("rule") and not tctx.get("fe"):
            w.append(("applyimports", 3))
        if self.fragment:
            w = [(k, x) for k, x in w if k in ("text", "valueof", "lre", "apply", "call", "foreach", "if", "choose", "xtext",
                                                "copyof", "comment", "pi")]
            if self.narrow:
                w = [(k, x) for k, x in w if k not in ("copyof", "comment", "pi")]
        k = r.weighted(w)
        self.features.add(k)
        if k == "applyimports":
            return [{"k": "applyimports"}]
        if k == "number":
            v = r.weighted([(("fn", "position", []), 3), (("bin", "+", ("fn", "count", [self.down_path(env, 1)]), ("num", 1)), 3),
                            (("num", r.range(1, 60)), 3), (("bin", "+", ("fn", "string-length", []), ("num", 1)), 1),
                            (("bin", "*", ("fn", "last", []), ("num", r.range(1, 30))), 1)])
            fmt = r.choice(["1", "01", "a", "A", "i", "I", "1.", "(a)", "001", "[I]", "1.a", "A-1", "1.1.1", "(1)[a]", "i.1-A:", "-", ""])
            if r.chance(1, 2):
                return [{"k": "number", "value": v, "format": fmt}]
            count = []
            if r.chance(1, 2):
                ctx = ("ctx",)
                count = [r.choice([("step", ctx, "child", ("name", r.choice(ENAMES)), []), ("step", ctx, "child", "star", []),
                                   ("step", ctx, "child", "text", []), ("step", ctx, "child", "node", []),
                                   ("step", ("step", ctx, "child", ("name", r.choice(ENAMES + ["r"])), []), "child", "star", [])])
                         for _ in range(r.range(1, 2))]
            frm = []
            if r.chance(1, 3):
                ctx = ("ctx",)
                frm = [r.choice([("step", ctx, "child", ("name", r.choice(ENAMES + ["r"])), []), ("step", ctx, "child", "star", []),
                                 ("step", ctx, "child", "text", []), ("step", ("step", ctx, "child", ("name", "r"), []), "child", "star", [])])]
            return [{"k": "number", "value": None, "level": r.choice(["single", "single", "multiple", "any"]), "count": count, "format": fmt,
                     "from": frm}]
        if k == "text":
            return [{"k": "text", "s": r.choice(["t", "ab", "x ", " y", "1", "-", "a b"])}]
        if k == "xtext":
            return [{"k": "text", "s": r.choice([" ", "z", "  "]), "xsl": True}]
        if k == "valueof":
            e = r.choice([self.gen_str, self.gen_str, self.gen_num, self.gen_ns, self.gen_bool])(env, 2)
            return [{"k": "valueof", "e": e}]
        if k == "lre":
            attrs = []
            for an in r.shuffle(["id", "k", "z"])[: r.weighted([(0, 4), (1, 3), (2, 1)])]:
                parts = []
                for _ in range(r.range(1, 2)):
                    parts.append(("l", r.choice(["v", "a", "1 ", ""])) if r.chance(1, 2) else ("e", r.choice([self.gen_str, self.gen_num])(env, 1)))
                attrs.append((an, parts))
            if r.chance(1, 5):
                attrs.append(("t", self.raw_avt()))
            if self.ns and r.chance(1, 4):
                attrs.append(("p:a", [("l", "n")]))
            return [{"k": "lre", "name": ("p:" + r.choice(["item", "x"])) if (self.ns and r.chance(1, 3)) else r.choice(OUTNAMES), "attrs": attrs, "body": self.gen_body(env, depth - 1, tctx, in_elem=True)}]
        if k == "element":
            name = [("l", ("p:" if (self.ns and r.chance(1, 3)) else "") + r.choice(["el", "n", "g"]))]
            if r.chance(1, 3):
                name.append(("e", r.choice([("fn", "position", []), ("fn", "count", [self.down_path(env, 0)])])))
            el = {"k": "element", "name": name, "body": self.gen_body(env, depth - 1, tctx, in_elem=True)}
            if r.chance(1, 3):
                el["ns"] = self.ns_avt()
                self.features.add("element-namespace")
            return [el]
        if k == "copy":
            # no use-attribute-sets on xsl:copy: when the current node is not an element the processor runs the
            # sets after the content and the content a second time (tagged corpus case copy-usesets-on-root)
            return [{"k": "copy", "body": self.gen_body(env, depth - 1, tctx, in_elem=True)}]
        if k == "copyof":
            c = r.weighted([("ns", 6), ("var", 3), ("str", 1)])
            if c == "var" and env:
                return [{"k": "copyof", "e": ("var", r.choice(env)[0])}]
            if c == "str":
                return [{"k": "copyof", "e": self.gen_str(env, 1)}]
            return [{"k": "copyof", "e": self.gen_ns(env, 2)}]
        if k == "apply":
            sel = None if r.chance(1, 3) else self.down_path(env, 1)
            mode = r.choice(self.modes) if self.modes and r.chance(1, 3) else None
            params = self.with_params(env, depth, ["p0", "p1"]) if r.chance(1, 3) else []
            return [{"k": "apply", "select": sel, "mode": mode, "sorts": self.sorts(env), "params": params}]
        if k == "call":
            name = r.choice(self.callable(tctx))
            return [{"k": "call", "name": name, "params": self.with_params(env, depth, ["p0", "p1"])}]
        if k == "foreach":
            vs = [v for v, t in env if t == "nsdown"]
            sel = ("var", r.choice(vs)) if vs and r.chance(1, 4) else self.down_path(env, 1)
            tctx["fe"] = tctx.get("fe", 0) + 1      # no current template rule inside xsl:for-each (no xsl:apply-imports)
            body = self.gen_body(env, depth - 1, tctx)
            tctx["fe"] -= 1
            return [{"k": "foreach", "select": sel, "sorts": self.sorts(env), "body": body}]
        if k == "if":
            return [{"k": "if", "test": self.gen_bool(env, 2), "body": self.gen_body(env, depth - 1, tctx)}]
        if k == "choose":
            whens = [{"k": "when", "test": self.gen_bool(env, 2), "body": self.gen_body(env, depth - 1, tctx)} for _ in range(r.range(1, 3))]
            other = self.gen_body(env, depth - 1, tctx) if r.chance(2, 3) else None
            return [{"k": "choose", "whens": whens, "otherwise": other}]
        if k == "variable":
            name = self.fresh_var()
            if r.chance(1, 6):
                # shadow a global (allowed by XSLT 1.0) at most once per template
                gl = [v for v, t in env if v.startswith("g") and v not in tctx.setdefault("shadowed", set())]
                if gl:
                    name = r.choice(gl)
                    tctx["shadowed"].add(name)
            if r.chance(1, 4) and depth > 0:
                body = self.gen_body(env, depth - 1, tctx) if r.chance(1, 2) else self.text_body(env, 1)
                var = {"k": "variable", "name": name, "select": None, "body": body}
                t = "rtf" if body else "str"
            else:
                e, t = self.gen_value(env, 2)
                var = {"k": "variable", "name": name, "select": e, "body": []}
            env[:] = [(v, ty) for v, ty in env if v != name] + [(name, t)]
            # a use right away makes the binding observable
            use = r.weighted([("valueof", 4), ("copyof", 2), ("none", 2)])
            out = [var]
            if use == "valueof":
                out.append({"k": "valueof", "e": ("fn", "string", [("var", name)]) if t != "ns" and t != "nsdown" else ("fn", "count", [("var", name)])})
            elif use == "copyof" and t != "str":
                out.append({"k": "copyof", "e": ("var", name)})
            return out
        if k == "comment":
            return [{"k": "comment", "body": [{"k": "text", "s": "c"}] + self.text_body(env, 0)}]
        if k == "pi":
            return [{"k": "pi", "name": [("l", r.choice(["p1", "tgt"]))], "body": self.text_body(env, 0)}]
        raise ValueError(k)

    def callable(self, tctx):
        lvl = tctx.get("named_level", -1)
        return self.named[lvl + 1:]

    # ---- stylesheets
    def gen_pattern(self):
        r = self.r
        c = r.weighted([("name", 6), ("star", 2), ("text", 2), ("attr", 2), ("two", 3), ("pred", 2), ("node", 1), ("root", 1), ("abs", 1), ("cpi", 1), ("piname", 1), ("nsstar", 1 if self.ns else 0)])
        ctx = ("ctx",)
        if c == "piname":
            return ("step", ctx, "child", ("piname", r.choice(["p1", "pp"])), [])
        if c == "nsstar":
            return ("step", ctx, r.weighted([("child", 3), ("attribute", 1)]), ("nsstar", "p"), [])
        if self.keys and not getattr(self, "in_key_decl", False) and r.chance(1, 6):
            kp = ("fn", "key", [("lit", "k0"), ("lit", r.choice(VALUES + ENAMES))])
            return kp if r.chance(1, 2) else ("step", kp, "child", r.choice([("name", r.choice(ENAMES)), "star", "text"]), [])
        if c == "name":
            return ("step", ctx, "child", ("name", r.choice(ENAMES + ["r"])), [])
        if c == "star":
            return ("step", ctx, "child", "star", [])
        if c == "text":
            return ("step", ctx, "child", "text", [])
        if c == "node":
            return ("step", ctx, "child", "node", [])
        if c == "cpi":
            return ("step", ctx, "child", r.choice(["comment", "pi"]), [])
        if c == "attr":
            return ("step", ctx, "attribute", r.choice([("name", r.choice(ANAMES)), "star"]), [])
        if c == "two":
            a = ("step", ctx, "child", r.choice([("name", r.choice(ENAMES + ["r"])), "star"]), [])
            ax = r.weighted([("child", 4), ("attribute", 1)])
            return ("step", a, ax, self.nametest(attr=(ax == "attribute")), [])
        if c == "pred":
            p = r.choice([("num", r.range(1, 2)), ("fn", "last", []), ("step", ("ctx",), "attribute", ("name", r.choice(ANAMES)), []),
                          ("bin", "=", ("step", ("ctx",), "attribute", ("name", r.choice(ANAMES)), []), ("lit", r.choice(VALUES))),
                          ("step", ("ctx",), "child", "star", [])])
            return ("step", ctx, "child", r.choice([("name", r.choice(ENAMES)), "star"]), [p])
        if c == "root":
            return ("root",)
        if c == "abs":
            return ("step", ("root",), "child", r.choice([("name", "r"), "star"]), [])
        raise ValueError(c)

    def gen_template_body(self, env, depth, tctx, params=()):
        body = []
        env = list(env)
        for p in params:
            r = self.r
            if r.chance(1, 4):
                body.append({"k": "param", "name": p, "select": None, "body": self.text_body(env, 1)})
            else:
                body.append({"k": "param", "name": p, "select": self.gen_value(env, 1)[0], "body": []})
            env[:] = [(v, ty) for v, ty in env if v != p] + [(p, "any")]
        body.extend(self.gen_body(env, depth, tctx))
        return body


    def scope_clash(self, globs, genv, attrsets, templates):
        """SCOPE CLASHES: one name bound globally and locally at every place where the Recommendation switches the variable
        scope, so that resolving a reference in the wrong frame changes the result:
          * attribute sets see ONLY top-level variables / params (XSLT 7.1.4) -- also nested use-attribute-sets, sets used
            from a literal result element / xsl:element / xsl:copy, inside a called template whose xsl:param / the caller's
            xsl:with-param has the same name;
          * a top-level variable's initialiser sees the other top-level bindings, also when it is first evaluated (lazily)
            from inside a template with same-named locals;
          * the default of an xsl:param is evaluated in the callee (a same-named local of the caller is invisible, the
            same-named global is visible), the value of xsl:with-param in the caller;
          * an xsl:sort key of xsl:for-each sees the bindings in scope at the for-each, not those made in its body.
        (xsl:key match / use may not contain variable references at all, XSLT 12.2 -- nothing to clash.)"""
        r = self.r
        S = lambda s: ("lit", s)
        V = lambda n: ("var", n)
        cat = lambda *a: ("fn", "concat", list(a))
        vo = lambda e: {"k": "valueof", "e": e}
        txt = lambda s: {"k": "text", "s": s}
        # globals: gs (string), gl = concat($gs,'+') (evaluated lazily), gk (sort direction)
        globs.append({"k": r.choice(["variable", "param"]), "name": "gs", "select": S("glob"), "body": []})
        globs.append({"k": "variable", "name": "gl", "select": cat(V("gs"), S("+")), "body": []})
        globs.append({"k": "variable", "name": "gk", "select": ("neg", ("num", 1)), "body": []})
        genv.extend([("gs", "str"), ("gl", "str"), ("gk", "num")])
        # attribute sets referring to the global; sc2 uses sc
        attrsets.append({"name": "sc", "uses": [], "body": [{"k": "attribute", "name": [("l", "sc")], "body": [vo(V("gs")), txt("|"), vo(V("gl"))]}]})
        attrsets.append({"name": "sc2", "uses": ["sc"], "body": [{"k": "attribute", "name": [("l", "sc2")], "body": [vo(cat(V("gs"), S("2")))]}]})
        use = lambda: {"k": "usesets", "names": r.choice([["sc"], ["sc2"], ["sc", "sc2"]])}

        def user():
            """an element-creating instruction that uses the sets, followed by a reference that shows the local value"""
            c = r.weighted([("lre", 3), ("element", 2), ("copy", 2)])
            inner = [txt("u")] if r.chance(1, 2) else []
            if c == "lre":
                return {"k": "lre", "name": "w", "attrs": [], "body": [use()] + inner}
            if c == "element":
                return {"k": "element", "name": [("l", "el")], "body": [use()] + inner}
            return {"k": "copy", "body": [use()] + inner}

        def local(name, val):
            return {"k": "variable", "name": name, "select": S(val), "body": []} if r.chance(2, 3) else \
                   {"k": "variable", "name": name, "select": None, "body": [txt(val)]}

        # called template: the clash comes from its own xsl:param (default refers to the global of the same name), from the
        # caller's xsl:with-param, or from a local xsl:variable
        variant = r.choice(["param", "param", "variable"])
        body = []
        if variant == "param":
            body.append({"k": "param", "name": "gs", "select": cat(V("gs"), S("-dflt")), "body": []})
        else:
            body.append(local("gs", "loc"))
        if r.chance(1, 2):
            body.append(local("gl", "locl"))
        body += [user(), txt("["), vo(V("gs")), txt("]")]
        if r.chance(2, 3):
            body += [vo(V("gl")) if not any(i.get("name") == "gl" for i in body) else vo(cat(V("gl"), S("!")))]
        # sort key against the bindings in scope at the for-each
        before = r.chance(1, 2)
        fe_body = [vo(("fn", "name", [])), txt(",")]
        if not before:
            fe_body = [{"k": "variable", "name": "gk", "select": ("num", 1), "body": []}] + fe_body + [vo(V("gk"))]
        fe = {"k": "foreach", "select": ("step", ("step", ("root",), "child", "star", []), "child", "star", []),
              "sorts": [(("bin", "*", ("fn", "count", [("step", ("ctx",), "preceding-sibling", "star", [])]), V("gk")), True, False)],
              "body": fe_body}
        if r.chance(1, 2):
            body += ([{"k": "variable", "name": "gk", "select": ("num", 1), "body": []}] if before else []) + [fe]
        templates.append({"pats": [], "name": "tc", "mode": None, "prio": None, "body": body})
        # callers: with or without with-param, with or without a same-named local of their own
        hosts = [t for t in templates if t["name"] != "tc"]
        for t in r.shuffle(hosts)[: r.range(1, 2)]:
            pre = []
            if r.chance(1, 2) and not any(i.get("k") in ("variable", "param") and i.get("name") == "gs" for i in t["body"]):
                pre.append(local("gs", "caller"))
            wp = []
            if r.chance(1, 2):
                wp = [{"k": "withparam", "name": "gs", "select": cat(V("gs"), S("-wp")), "body": []}]
            call = {"k": "call", "name": "tc", "params": wp}
            # params must stay first in a template body
            npar = len([i for i in t["body"] if i["k"] == "param"])
            tail = pre + ([user()] if pre and r.chance(1, 2) else []) + [call]
            t["body"] = t["body"][:npar] + ([] if r.chance(1, 2) else []) + t["body"][npar:] + tail
        self.features.add("scope-clash")


    def prio_ladder(self, templates):
        """CONFLICT RESOLUTION (XSLT 5.5) for every pattern kind: per node kind, rules whose patterns all match the same
        nodes and differ in default priority only -- processing-instruction('t') and QName tests 0, NCName:* -0.25, the other
        single node tests -0.5, every other pattern 0.5 -- in an order in which a later rule of lower priority would win if
        one default priority were computed too low (and, with the order reversed, too high).  All in mode "pr"; the root
        rule sends every node and attribute of the document through that mode."""
        r = self.r
        ctx = ("ctx",)
        T = ("fn", "true", [])

        def st(ax, t, preds=()):
            return ("step", ctx, ax, t, list(preds))

        def two(ax, t):
            return ("step", ("step", ctx, "child", "star", []), ax, t, [])
        nm = r.choice(ENAMES)
        an = r.choice(ANAMES)
        pit = r.choice(["p1", "pp"])
        ladders = {
            "E": [(st("child", ("name", nm), [T]), 2), (two("child", ("name", nm)), 2), (st("child", "star", [T]), 2),
                  (st("child", ("name", nm)), 0), (st("child", "star"), -2), (st("child", "node"), -2)],
            "A": [(st("attribute", ("name", an), [T]), 2), (two("attribute", ("name", an)), 2), (st("attribute", ("name", an)), 0),
                  (st("attribute", "star"), -2)],
            "T": [(st("child", "text", [T]), 2), (two("child", "text"), 2), (st("child", "text"), -2), (st("child", "node"), -2)],
            "C": [(st("child", "comment", [T]), 2), (st("child", "comment"), -2), (st("child", "node"), -2)],
            "P": [(st("child", "pi", [T]), 2), (two("child", ("piname", pit)), 2), (st("child", ("piname", pit)), 0),
                  (st("child", "pi"), -2), (st("child", "node"), -2)],
        }
        if self.ns:
            ladders["E"] += [(st("child", ("name", "p:" + ENAMES[0])), 0), (st("child", ("nsstar", "p")), -1)]
            ladders["A"] += [(st("attribute", ("name", "p:x")), 0), (st("attribute", ("nsstar", "p")), -1)]
        for kind in r.shuffle(["E", "A", "T", "C", "P", "P"])[: r.range(2, 4)]:
            lad = r.shuffle(ladders[kind])[: r.range(2, 4)]
            # mostly descending priority (later = lower), sometimes ascending, sometimes as drawn
            o = r.weighted([("desc", 5), ("asc", 2), ("any", 2)])
            if o != "any":
                lad = sorted(lad, key=lambda x: -x[1] if o == "desc" else x[1])
            for j, (pat, q) in enumerate(lad):
                templates.append({"pats": [pat], "name": None, "mode": "pr", "prio": None,
                                  "body": [{"k": "text", "s": "%s%d%s;" % (kind, j, "abcdefgh"[(q + 2)])}]})
        roots = [t for t in templates if t["pats"] == [("root",)] and t["mode"] is None]
        if not roots:
            roots = [{"pats": [("root",)], "name": None, "mode": None, "prio": None, "body": []}]
            templates.append(roots[0])
        sel = ("bin", "|", ("step", ctx, "descendant", "node", []), ("step", ("step", ctx, "descendant", "star", []), "attribute", "star", []))
        roots[0]["body"].append({"k": "apply", "select": sel, "mode": "pr", "sorts": [], "params": []})
        self.features.add("priority-ladder")

    def ns_rebind(self, templates):
        """SAME PREFIX, DIFFERENT URIS: the documents re-bind p / q at different depths (`self.rebind`); their elements
        are copied -- deep by xsl:copy-of, node by node by an identity rule with xsl:copy -- into result elements that
        already bind those prefixes to each of the URIs.  Names are compared expanded."""
        r = self.r
        ctx = ("ctx",)
        self.ns = True
        self.rebind = True
        templates.append({"pats": [("step", ctx, "child", "star", [])], "name": None, "mode": "cp", "prio": None,
                          "body": [{"k": "copy", "body": [{"k": "copyof", "e": ("step", ctx, "attribute", "star", [])},
                                                          {"k": "apply", "select": None, "mode": "cp", "sorts": [], "params": []}]}]})
        roots = [t for t in templates if t["pats"] == [("root",)] and t["mode"] is None]
        if not roots:
            roots = [{"pats": [("root",)], "name": None, "mode": None, "prio": None, "body": []}]
            templates.append(roots[0])
        for _ in range(r.range(1, 3)):
            sel = r.choice([("step", ctx, "descendant", "star", []),
                            ("step", ("step", ctx, "descendant", "star", []), "child", "star", []),
                            ("step", ctx, "descendant", ("name", r.choice(ENAMES)), []),
                            ("step", ("step", ctx, "descendant", "star", [("step", ctx, "attribute", "star", [])]), "child", "star", [])])
            inner = [{"k": "copyof", "e": sel}] if r.chance(1, 2) else [{"k": "apply", "select": sel, "mode": "cp", "sorts": [], "params": []}]
            w = r.weighted([("lre-p", 3), ("el-o", 3), ("el-qp", 2), ("out", 2), ("el-d", 1)])
            if w == "lre-p":
                wrap = {"k": "lre", "name": "p:item", "attrs": [], "body": inner}
            elif w == "out":
                wrap = {"k": "lre", "name": "out", "attrs": [], "body": inner}
            else:
                nm, ns = {"el-o": ("p:el", "urn:o"), "el-qp": ("q:el", "urn:p"), "el-d": ("el", "urn:d")}[w]
                wrap = {"k": "element", "name": [("l", nm)], "ns": [("l", ns)], "body": inner}
            roots[0]["body"].append(wrap)
        self.features.add("prefix-rebound-copy")

    def gen_stylesheet(self):
        r = self.r
        self.varctr = 0
        self.ns = (not self.fragment) and r.chance(1, 4)
        self.imports = 0 if self.fragment or not r.chance(1, 4) else 1
        self.modes = ["m1"] if r.chance(1, 3) else []
        nnamed = r.weighted([(0, 3), (1, 3), (2, 2)])
        self.named = ["t%d" % i for i in range(nnamed)]
        genv = []
        globs = []
        self.nopos = True
        for gi in range(0 if self.fragment else r.weighted([(0, 3), (1, 2), (2, 1)])):
            name = "g%d" % gi
            if r.chance(1, 4):
                body = self.text_body(genv, 0) or [{"k": "text", "s": "G"}]
                globs.append({"k": "variable", "name": name, "select": None, "body": body})
                genv.append((name, "rtf"))
            else:
                e, t = self.gen_value(genv, 2)
                globs.append({"k": r.weighted([("variable", 4), ("param", 1)]), "name": name, "select": e, "body": []})
                genv.append((name, "ns" if t == "nsdown" else t))
        if not self.fragment and r.chance(1, 5):
            e, t = self.gen_value(genv, 1)
            globs.append({"k": "variable", "name": "p0", "select": e, "body": []})
            genv.append(("p0", "ns" if t == "nsdown" else t))
        # keys
        keys = []
        self.keys = []
        if not self.fragment and r.chance(1, 3):
            use = r.choice([("step", ("ctx",), "attribute", ("name", r.choice(ANAMES)), []), ("ctx",), ("fn", "name", []),
                            ("step", ("ctx",), "child", "star", []), ("fn", "string-length", [])])
            pats = [p for p in [self.gen_pattern() for _ in range(r.range(1, 2))]]
            keys.append({"name": "k0", "pats": pats, "use": use})
            self.keys = ["k0"]
        # attribute sets (only top-level variables are visible inside them)
        attrsets = []
        self.sets = []
        for si in range(0 if self.fragment else r.weighted([(0, 3), (1, 2), (2, 1)])):
            name = "s%d" % si
            body = []
            for _ in range(r.range(1, 2)):
                a = self.attr_instr(genv, 1)
                a.pop("nsempty", None)
                a.pop("ns", None)
                body.append(a)
            attrsets.append({"name": name, "uses": list(self.sets) if self.sets and r.chance(1, 2) else [], "body": body})
            self.sets.append(name)
        self.nopos = False
        depth = 1 + self.size
        templates = []
        # root rule most of the time
        if r.chance(4, 5):
            tctx = {"rule": True}
            body = [{"k": "lre", "name": "out", "attrs": [], "body": self.gen_body(genv, depth, tctx, in_elem=True)}] if r.chance(4, 5) else self.gen_body(genv, depth, tctx)
            templates.append({"pats": [("root",)], "name": None, "mode": None, "prio": None, "body": body})
        for _ in range(r.range(1, 2 + self.size) + self.imports):
            tctx = {"rule": True}
            pats = [self.gen_pattern() for _ in range(r.weighted([(1, 5), (2, 1)]))]
            mode = r.choice(self.modes) if self.modes and r.chance(1, 2) else None
            # a union pattern gets an explicit priority: the processor gives every alternative the best
            # alternative's default priority (C10's subject), the Recommendation each its own
            prio = r.choice([-2, -1, 0, 1, 2, 3, 4]) if (r.chance(1, 4) or len(pats) > 1) else None
            params = [p for p in ["p0", "p1"] if r.chance(1, 3) and not self.fragment]
            templates.append({"pats": pats, "name": None, "mode": mode, "prio": prio,
                              "body": self.gen_template_body(genv, depth - 1, tctx, params)})
        for idx, name in enumerate(self.named):
            tctx = {"named_level": idx}
            params = [p for p in ["p0", "p1"] if r.chance(1, 2) and not self.fragment]
            pats = [self.gen_pattern()] if r.chance(1, 5) else []
            templates.append({"pats": pats, "name": name, "mode": None, "prio": None,
                              "body": self.gen_template_body(genv, depth - 1, tctx, params)})
        if not self.fragment and r.chance(1, 4):
            # body pass + index pass: the whole document is processed again (and again, reversed) from the root rule
            roots = [t for t in templates if t["pats"] == [("root",)]]
            if roots:
                mode = r.choice(self.modes) if self.modes and r.chance(1, 2) else None
                sel = ("step", ("ctx",), "descendant", r.choice(["node", "star", ("name", r.choice(ENAMES))]), [])
                for k in range(r.range(2, 3)):
                    srt = [(("fn", "position", []), True, True)] if (k and r.chance(1, 2)) else []
                    roots[0]["body"].append({"k": "apply", "select": sel, "mode": mode, "sorts": srt, "params": []})
                self.features.add("index-pass")
        if not self.fragment and self.named and r.chance(1, 5):
            # two modes, one named template: every element reaches the same instructions twice
            if "m1" not in self.modes:
                self.modes.append("m1")
            for mode in (None, "m1"):
                templates.append({"pats": [("step", ("ctx",), "child", "star", [])], "name": None, "mode": mode, "prio": 6,
                                  "body": [{"k": "call", "name": self.named[0], "params": []},
                                           {"k": "apply", "select": None, "mode": mode, "sorts": [], "params": []}]})
            roots = [t for t in templates if t["pats"] == [("root",)]]
            for t in roots[:1]:
                t["body"].append({"k": "apply", "select": None, "mode": None, "sorts": [], "params": []})
                t["body"].append({"k": "apply", "select": None, "mode": "m1", "sorts": [], "params": []})
            self.features.add("two-modes-one-template")
        if not self.fragment and r.chance(1, 3):
            self.scope_clash(globs, genv, attrsets, templates)
        templates = r.shuffle(templates)
        if not self.fragment and r.chance(1, 4):
            self.prio_ladder(templates)
        if not self.fragment and r.chance(1, 5):
            self.ns_rebind(templates)
        modules = None
        if self.imports:
            modules, prec = plan_modules(r)
            main_p, main_lo = prec[0]
            for t in templates:
                # named templates stay in the main module; rules are spread over the import tree and the included file
                t["mod"] = 0 if t["name"] is not None else r.below(len(modules))
                t["prec"], t["low"] = prec[t["mod"]]
            extra = []
            for a in attrsets:
                a["mod"] = r.below(len(modules))
                a["prec"] = prec[a["mod"]][0]
                if r.chance(1, 2):
                    # a second definition of the same name in another module: merged, higher precedence wins
                    other = r.below(len(modules))
                    if prec[other][0] != a["prec"]:
                        body = []
                        for _ in range(r.range(1, 2)):
                            x = self.attr_instr(genv, 1)
                            x.pop("nsempty", None)
                            x.pop("ns", None)
                            body.append(x)
                        extra.append({"name": a["name"], "uses": [], "body": body, "mod": other, "prec": prec[other][0]})
            attrsets = attrsets + extra
            # declarations in imported modules: a second xsl:key of the same name (the declarations are united), a lower
            # precedence definition of a global variable and of a named template (the higher one must win)
            if keys and r.chance(1, 2):
                self.in_key_decl = True
                keys.append({"name": "k0", "pats": [self.gen_pattern()], "use": r.choice([("ctx",), ("fn", "name", []),
                             ("step", ("ctx",), "attribute", ("name", r.choice(ANAMES)), [])]), "mod": r.range(1, len(modules) - 1)})
                self.in_key_decl = False
            gdup = []
            for g in globs:
                if g["select"] is not None and g["select"][0] in ("lit", "num") and r.chance(1, 2):
                    other = r.range(1, len(modules) - 1)
                    if prec[other][0] < main_p:
                        gdup.append({"k": "variable", "name": g["name"], "select": ("lit", "imported"), "body": [], "mod": other,
                                     "prec": prec[other][0]})
            for g in globs:
                g.setdefault("prec", main_p)
            globs = sorted(gdup, key=lambda g: g["prec"]) + globs
            tdup = []
            for t in templates:
                if t["name"] is not None and not t["pats"] and r.chance(1, 2):
                    other = r.range(1, len(modules) - 1)
                    if prec[other][0] < main_p:
                        tdup.append({"pats": [], "name": t["name"], "mode": None, "prio": None, "body": [{"k": "text", "s": "IMPORTED"}],
                                     "mod": other, "prec": prec[other][0], "low": prec[other][1]})
            templates = templates + tdup
            # Spec order = document order with imported modules first and included content last within its precedence
            included = set(j for m in modules for j in m["includes"])
            templates = sorted(templates, key=lambda t: (t["prec"], t["mod"] in included))
            attrsets = sorted(attrsets, key=lambda a: (a["prec"], a["mod"] in included))
        strip = []
        if not self.fragment and r.chance(1, 4):
            strip = ["*"] if r.chance(1, 3) else r.shuffle(ENAMES + ["r"])[: r.range(1, 3)]
        self.xmlspace = bool(strip) and r.chance(2, 3)
        alias = []
        if self.ns and not self.imports and r.chance(1, 2):
            # only in single-module stylesheets: the processor applies an alias to the literal result elements of the
            # declaring module alone, not to those of modules it imports (tagged corpus case namespace-alias-imported-module)
            alias = [("urn:p", "urn:q")]
            self.features.add("namespace-alias")
        return {"globals": globs, "templates": templates, "attrsets": attrsets, "keys": keys, "strip": strip,
                "imports": self.imports, "modules": modules, "alias": alias}


def instr_kinds(ss):
    """multiset-free summary of the instruction kinds (with flags) of a stylesheet: used for keys"""
    out = set()

    def walk(body):
        for i in body:
            k = i["k"]
            tag = k
            if k == "attribute" and i.get("nsempty"):
                tag = "attribute[ns]"
            if k in ("attribute", "element") and i.get("ns") is not None:
                tag = k + "[namespace=]"
            if k == "copyof":
                e = i["e"]
                tag = "copyof[%s]" % ("var" if e[0] == "var" else "str" if e[0] in ("lit", "fn") else "ns")
            out.add(tag)
            for f in ("body", "params", "whens", "otherwise"):
                if i.get(f):
                    walk(i[f])
            if i.get("sorts"):
                out.add("sort")
    for t in ss["templates"]:
        walk(t["body"])
    for g in ss["globals"]:
        out.add("global-" + g["k"])
    return sorted(out)
