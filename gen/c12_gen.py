"""C12 generators: document shapes, list-operation histories, XPath union queries.
All randomness comes from the Rng passed in (seeded by VERIF_SEED in checks/c12.py).

Shape grammar (shared with harness/c12_nodelist.cpp and lean/Driver/C12.lean):
    node := ('e'|'E') digit '(' node* ')' | 't' | 'c' | 'p' ('E': plus an xmlns:p1 declaration)      document := node*   (no top-level text,
    no adjacent text nodes, exactly one top-level element)
"""
import itertools
import re


# ---------------------------------------------------------------------------------------------
# shapes

def gen_children(r, budget, depth, top):
    """returns (shape string, nodes used)"""
    out = []
    used = 0
    last_text = False
    n = r.range(0, 4) if depth < 5 else 0
    for _ in range(n):
        if used >= budget:
            break
        k = r.weighted([("e", 6), ("t", 3), ("c", 1), ("p", 1), ("d", 1)])
        if k == "d":
            if top:
                continue
            out.append("d"); used += 1; last_text = False      # CDATA section, may touch text and other CDATA sections
        elif k == "t":
            if last_text or top:
                continue
            out.append("t"); used += 1; last_text = True
        elif k in ("c", "p"):
            out.append(k); used += 1; last_text = False
        else:
            na = r.weighted([(0, 4), (1, 3), (2, 2), (3, 1)])
            if used + 1 + na > budget:
                na = 0
            sub, u = gen_children(r, budget - used - 1 - na, depth + 1, False)
            ns = r.chance(1, 5)
            if ns and used + 2 + na + u > budget + 1:
                ns = False
            out.append("%s%d(%s)" % ("E" if ns else "e", na, sub)); used += 1 + na + u + (1 if ns else 0); last_text = False
    return "".join(out), used


def gen_shape(r, maxnodes):
    """one document: optional leading comments/PIs, the document element, optional trailing ones"""
    pre = "".join(r.choice(["c", "p"]) for _ in range(r.weighted([(0, 6), (1, 2), (2, 1)])))
    post = "".join(r.choice(["c", "p"]) for _ in range(r.weighted([(0, 6), (1, 2), (2, 1)])))
    na = r.weighted([(0, 3), (1, 3), (2, 2), (3, 1)])
    sub, _ = gen_children(r, max(0, maxnodes - 2 - na - len(pre) - len(post)), 1, False)
    return "%s%s%d(%s)%s" % (pre, "E" if r.chance(1, 4) else "e", na, sub, post)


def parse_shape(shape, rep):
    """-> (kinds string, parents list) of the pre-order walk (document = node 0), as the three
    representations expose it: the source tree (rep 'S') gives the document element one extra
    attribute node (the implicit xmlns:xml declaration)."""
    if rep == "S":
        # the source tree follows the XPath data model: adjacent character data (text, CDATA) is one text node
        shape = re.sub(r"[td]+", "t", shape)
    kinds = ["D"]
    parents = [-1]
    pos = 0
    seen_doc_elem = [False]

    def nodes(parent, top):
        nonlocal pos
        while pos < len(shape) and shape[pos] != ")":
            c = shape[pos]
            if c in "eE":
                na = int(shape[pos + 1]) + (1 if c == "E" else 0)
                assert shape[pos + 2] == "("
                pos += 3
                me = len(kinds)
                kinds.append("e"); parents.append(parent)
                if top and rep == "S" and not seen_doc_elem[0]:
                    na += 1
                if top:
                    seen_doc_elem[0] = True
                for _ in range(na):
                    kinds.append("a"); parents.append(me)
                nodes(me, False)
                assert shape[pos] == ")"
                pos += 1
            else:
                assert c in "tcpd"
                kinds.append(c); parents.append(parent)
                pos += 1
    nodes(0, True)
    assert pos == len(shape), shape
    return "".join(kinds), parents


def all_shapes(maxnodes):
    """every document shape with at most `maxnodes` nodes below the document node: one document
    element, elements with 0..2 attributes, text/comment leaves (small-scope exhaustive tier)"""
    from functools import lru_cache

    @lru_cache(None)
    def seqs(budget, allow_text_first):
        # sequences of child nodes using exactly <= budget nodes: list of (string, used)
        res = [("", 0)]
        if budget <= 0:
            return res
        # first child choices
        firsts = []
        if allow_text_first:
            firsts.append(("t", 1, False))
        firsts.append(("c", 1, True))
        firsts.append(("d", 1, True))       # CDATA section: may touch text and other CDATA sections
        for tag, na, cost in (("e", 0, 0), ("e", 1, 1), ("e", 2, 2), ("E", 0, 1), ("E", 1, 2)):
            if 1 + cost <= budget:
                for sub, u in seqs(budget - 1 - cost, True):
                    firsts.append(("%s%d(%s)" % (tag, na, sub), 1 + cost + u, True))
        for f, u, nxt_text in firsts:
            if u > budget:
                continue
            for rest, u2 in seqs(budget - u, nxt_text):
                res.append((f + rest, u + u2))
        return res
    out = set()
    for tag, na, cost in (("e", 0, 0), ("e", 1, 1), ("e", 2, 2), ("E", 0, 1), ("E", 1, 2)):
        if 1 + cost > maxnodes:
            continue
        for sub, u in seqs(maxnodes - 1 - cost, True):
            out.add("%s%d(%s)" % (tag, na, sub))
    return sorted(out, key=lambda s: (len(s), s))


# ---------------------------------------------------------------------------------------------
# list histories

NLISTS = 4


def gen_history(r, docsizes, maxops, style):
    """docsizes: {doc id: node count}.  style 'pure': ordered inserts and merges only;
    'wild': every public mutator.  Returns request lines (lists 0..NLISTS-1 are cleared first).
    Positions are arbitrary numbers (the protocol reduces them modulo the current length) and the
    harness refuses ordered inserts on lists holding nulls, so no state needs tracking here."""
    ops = ["new %d" % i for i in range(NLISTS)]
    docs = sorted(docsizes)
    multi = len(docs) > 1 and r.chance(1, 3)
    home = r.choice(docs)

    def node():
        d = r.choice(docs) if multi else home
        n = docsizes[d]
        if r.chance(1, 12) or n <= 1:
            return "d%d.0" % d
        return "d%d.%d" % (d, r.range(1, n - 1))

    nops = r.range(1, maxops)
    for _ in range(nops):
        i = r.below(2) if r.chance(2, 3) else r.below(NLISTS)
        j = (i + 1 + r.below(NLISTS - 1)) % NLISTS
        if style == "pure":
            k = r.weighted([("addo", 14), ("addso", 3), ("addsb", 2), ("addsx", 1), ("new", 1), ("orderd", 1)])
        else:
            k = r.weighted([("addo", 10), ("add", 3), ("addso", 3), ("addsb", 2), ("addsx", 1), ("new", 1),
                            ("order", 2), ("reverse", 2), ("setnull", 1), ("clearnulls", 2), ("ins", 1), ("rm", 1),
                            ("rmn", 1), ("swap", 1), ("copy", 1), ("copyb", 1)])
        if k in ("addo", "add", "rmn"):
            ops.append("%s %d %s" % (k, i, node()))
        elif k in ("addso", "addsb", "addsx", "swap", "copy", "copyb"):
            ops.append("%s %d %d" % (k, i, j))
        elif k in ("new", "reverse", "clearnulls"):
            ops.append("%s %d" % (k, i))
        elif k == "orderd":
            ops.append("order %d d" % i)
        elif k == "order":
            ops.append("order %d %s" % (i, r.choice(["u", "d", "r"])))
        elif k in ("setnull", "rm"):
            ops.append("%s %d %d" % (k, i, r.below(64)))
        elif k == "ins":
            ops.append("ins %d %s %d" % (i, node(), r.below(64)))
    return ops


# ---------------------------------------------------------------------------------------------
# XPath union queries (operands are evaluated alone first; see checks/c12.py)

OPERANDS = [
    "//e", "//@*", "//text()", "//comment()", "//node()", "/*", "/.", "//e[1]", "//e[last()]", "//e/e",
    "//e[@a1]", "//e/@a1", "//e/@a2", "//*[e]", "ancestor::*", "ancestor-or-self::node()", "preceding::node()",
    "following::node()", "following::e", "preceding-sibling::node()", "following-sibling::node()", "..", ".",
    "descendant::e", "descendant-or-self::node()", "*", "@*", "node()", "//e[2]/following-sibling::node()",
    "(//e)[position()<3]", "//e[count(*)>1]", "//e[not(*)]", "//processing-instruction()", "../@*", "//e/..",
    "preceding::e[1]", "ancestor::e[1]", "//e[position()=2]",
    "set:difference(//e,//e[e])", "set:intersection(//e|//@*,//@*|//text())", "set:distinct(//e/@a1)", "set:distinct(//node())",
    "set:leading(//node(),//e[3])", "set:trailing(//e,//e[2])", "set:difference(//node(),descendant::node())",
    "set:trailing(//node()|//@*,//@a1)", "//e[set:has-same-node(.,//e[e])]", "set:leading(following::node(),//e[last()])",
    "//namespace::*", "namespace::*", "//e/namespace::*", "//e/@*", "ancestor::e/@*", "//@a1/..", "//namespace::*/..",
]


def gen_identities(r):
    """pairs of expressions that must deliver the same list (EXSLT set algebra)"""
    pool = [e for e in OPERANDS if not e.startswith("set:") and "has-same" not in e and e not in ("/.",)]
    a, b = r.choice(pool), r.choice(pool)
    return [(a, "set:difference(%s,%s)|set:intersection(%s,%s)" % (a, b, a, b)),
            ("set:intersection(%s,%s)" % (a, b), "set:intersection(%s,%s)" % (b, a)),
            ("set:difference(%s,%s)" % (a, a), "set:difference(%s,%s)" % (b, b)),
            ("set:intersection(%s,%s)" % (a, a), a),
            ("set:leading(%s,%s)|set:trailing(%s,%s)" % (a, a, a, a), "(%s)[position()>1]" % a)]


def gen_union_shapes(r):
    """-> list of operand-index tuples structures to query: ('u', [a, b, c]) flat union a|b|c and the
    algebraic variants the property names"""
    a, b, c = r.choice(OPERANDS), r.choice(OPERANDS), r.choice(OPERANDS)
    forms = [[a, b], [b, a], [a, a], [a, b, c], [c, b, a], [b, a, a, c]]
    return a, b, c, forms


# ---------------------------------------------------------------------------------------------
# stylesheet-level node-sets (key(), id(), document(), result-tree fragments, EXSLT set functions) through the Xalan CLI

class LabDoc:
    """a generated document whose nodes carry labels the stylesheet can print:
    element  <e i="Pn" id="xn" k="v?" [r="idrefs"]>  label Pn ; its attribute k: Pn@k ; a text child: Pn#<number of preceding
    siblings> ; the root node: P0.  n is the pre-order number (root 0), so label order = document order."""

    def __init__(self, r, prefix, maxnodes, with_ids):
        self.prefix = prefix
        self.key = {prefix + "0": (prefix, 0, 0)}     # label -> sort key
        self.kval = {}                               # element label -> value of @k
        self.n = 0
        self.with_ids = with_ids
        self.elems = []
        self.children = {}                           # element label -> child element labels
        self.xml = self._elem(r, maxnodes, 0, None)
        if with_ids:
            # IDREFS are filled in afterwards (any ids, some dangling)
            for lab in self.elems:
                if r.chance(1, 3):
                    refs = [("x" + r.choice(self.elems)[1:]) if r.chance(5, 6) else "x999" for _ in range(r.range(1, 4))]
                    self.xml = self.xml.replace('i="%s" ' % lab, 'i="%s" r="%s" ' % (lab, " ".join(refs)), 1)
                    self.refs = getattr(self, "refs", {})
                    self.refs[lab] = refs
        self.refs = getattr(self, "refs", {})

    def _elem(self, r, budget, depth, parent):
        self.n += 1
        me = "%s%d" % (self.prefix, self.n)
        myn = self.n
        self.key[me] = (self.prefix, myn, 0)
        self.key[me + "@k"] = (self.prefix, myn, 1)
        kv = "v%d" % r.below(3)
        self.kval[me] = kv
        self.elems.append(me)
        self.children[me] = []
        if parent is not None:
            self.children[parent].append(me)
        out = '<e i="%s" ' % me
        if self.with_ids:
            out += 'id="x%d" ' % myn
        out += 'k="%s">' % kv
        nsib = 0
        last_text = False
        nkids = r.range(0, 4) if depth < 4 else 0
        for _ in range(nkids):
            if self.n >= budget:
                break
            if r.chance(1, 4) and not last_text:
                self.n += 1
                self.key["%s#%d" % (me, nsib)] = (self.prefix, self.n, 0)
                out += "t"
                last_text = True
            else:
                out += self._elem(r, budget, depth + 1, me)
                last_text = False
            nsib += 1
        return out + "</e>"

    def document(self):
        dtd = "<!DOCTYPE e [<!ATTLIST e id ID #IMPLIED>]>\n" if self.with_ids else ""
        return '<?xml version="1.0"?>\n' + dtd + self.xml + "\n"


BASE_EXPRS = [
    "//e", "//e[@k='v0']", "//e[@k='v1']", "//e[@k='v2']", "//e[e]", "//e[not(e)]", "//e[position()=1]", "//e[last()]",
    "//text()", "//e/@k", "//e[@k='v2']/@k", "/*/e", "//e/e[2]", "//e[substring(@i,2) mod 2 = 0]", "//e[substring(@i,2) mod 3 = 1]",
    "/.", "//e/..", "//e[@k='v1']/ancestor::e", "//e[@k='v0']/following-sibling::e", "//e[@k='v2']/preceding::e",
    "//e[@k='v1']/ancestor-or-self::node()", "//e[@k='v0']/descendant::e", "//e[@k='v2']/following::node()",
    "key('k','v0')", "key('k','v1')", "key('k','v2')", "key('k',//e/@k)", "key('kk','v1')", "key('kk','v0')",
    "key('k',//e[e]/@k)", "id(//e/@r)", "id(//e[@k='v1']/@r)", "id(//e/@r)/e",
]
DOC_EXPRS = ["document('b.xml')//e", "document('b.xml')//e[@k='v1']", "document('b.xml')/*", "document('b.xml')//e/@k",
             "document('b.xml')//e[last()]", "document('b.xml')/."]
RTF_EXPRS = ["exsl:node-set($rtf)//e", "exsl:node-set($rtf)//e[@k='v1']", "xalan:nodeset($rtg)//e", "exsl:node-set($rtf)/e/e[1]",
             "exsl:node-set($rtf)", "xalan:nodeset($rtg)//e[@k='v0']", "exsl:node-set($rtf)//e/@k"]

SHEET_HEAD = '''<xsl:stylesheet version="1.0" xmlns:xsl="http://www.w3.org/1999/XSL/Transform" xmlns:exsl="http://exslt.org/common" xmlns:set="http://exslt.org/sets" xmlns:xalan="http://xml.apache.org/xalan" exclude-result-prefixes="exsl set xalan">
<xsl:output method="text"/>
<xsl:key name="k" match="e" use="@k"/>
<xsl:key name="kk" match="e" use="e/@k"/>
<xsl:variable name="rtf">%s</xsl:variable>
<xsl:variable name="rtg">%s</xsl:variable>
<xsl:template match="e" mode="lab"><xsl:value-of select="@i"/></xsl:template>
<xsl:template match="@*" mode="lab"><xsl:value-of select="../@i"/>@<xsl:value-of select="name()"/></xsl:template>
<xsl:template match="text()" mode="lab"><xsl:value-of select="../@i"/>#<xsl:value-of select="count(preceding-sibling::node())"/></xsl:template>
<xsl:template match="/" mode="lab"><xsl:value-of select="substring(*/@i,1,1)"/>0</xsl:template>
<xsl:template match="/">
'''


def xml_attr(s):
    return s.replace("&", "&amp;").replace("<", "&lt;").replace('"', "&quot;")


def gen_cli_case(r, maxnodes):
    """-> dict(files={name: text}, queries=[(id, expr, spec)], docs={prefix: LabDoc})
    spec: None | ('union', [ids]) | ('diff', a, b) | ('inter', a, b) | ('distinct', a) | ('leading', a, b) |
          ('trailing', a, b) | ('same', a, b) | ('key', value) | ('id', [ids])"""
    m = LabDoc(r, "m", r.range(4, maxnodes), True)
    b = LabDoc(r, "b", r.range(2, max(3, maxnodes // 2)), True)
    f = LabDoc(r, "r", r.range(2, 7), False)
    g = LabDoc(r, "s", r.range(2, 6), False)
    queries = []
    ops = []
    pool = BASE_EXPRS * 2 + DOC_EXPRS + RTF_EXPRS
    nid = [0]

    def add(expr, spec=None):
        nid[0] += 1
        q = "Q%d" % nid[0]
        queries.append((q, expr, spec))
        return q
    # exact oracles for key() and id()
    v = "v%d" % r.below(3)
    add("key('k','%s')" % v, ("key", v))
    ids = [("x" + r.choice(m.elems)[1:]) if r.chance(7, 8) else "x777" for _ in range(r.range(1, 6))]
    add("id('%s')" % " ".join(ids), ("id", ids))
    add("id(//e/@r)", ("idrefs", None))
    # IDREFS held by another document are resolved in the document of the context node (XPath 1.0 section 4.1)
    add("id(document('b.xml')//e/@r)", ("idfrom", "b"))
    add("id(document('b.xml')//e/@r)|document('b.xml')//e[@r]")
    for _ in range(10):
        e = r.choice(pool)
        ops.append((add(e), e))
    main_elem_ops = [(q, e) for q, e in ops if e in BASE_EXPRS and "@k" not in e.split("/")[-1] and "text()" not in e
                     and "node()" not in e and e not in ("/.", "//e/..")]
    for _ in range(8):
        k = r.range(2, 3)
        chosen = [r.choice(ops) for _ in range(k)]
        add("|".join(e for _, e in chosen), ("union", [q for q, _ in chosen]))
    for _ in range(4):
        if len(main_elem_ops) < 1:
            break
        qa, ea = r.choice(main_elem_ops)
        qb, eb = r.choice(main_elem_ops)
        add("set:difference(%s, %s)" % (ea, eb), ("diff", qa, qb))
        add("set:intersection(%s, %s)" % (ea, eb), ("inter", qa, qb))
        add("set:has-same-node(%s, %s)" % (ea, eb), ("same", qa, qb))
        cond = r.choice(["@k='v1'", "@k='v0'", "e", "substring(@i,2) mod 2 = 0"])
        qs = add("(%s)[%s]" % (ea, cond))
        add("set:leading(%s, (%s)[%s])" % (ea, ea, cond), ("leading", qa, qs))
        add("set:trailing(%s, (%s)[%s])" % (ea, ea, cond), ("trailing", qa, qs))
        add("set:leading(%s, (%s)[%s])|set:trailing(%s, (%s)[%s])" % (ea, ea, cond, ea, ea, cond))
    qk = add("//e/@k")
    add("set:distinct(//e/@k)", ("distinct", qk))
    qk2 = add("//e[e]/@k|//e[@k='v1']/@k")
    add("set:distinct(//e[e]/@k|//e[@k='v1']/@k)", ("distinct", qk2))
    body = []
    for q, expr, spec_ in queries:
        if spec_ is not None and spec_[0] == "same":
            body.append('<xsl:text>&#10;%s: </xsl:text><xsl:value-of select="%s"/>' % (q, xml_attr(expr)))
            continue
        body.append('<xsl:text>&#10;%s:</xsl:text><xsl:for-each select="%s"><xsl:text> </xsl:text>'
                    '<xsl:apply-templates select="." mode="lab"/></xsl:for-each>' % (q, xml_attr(expr)))
    sheet = SHEET_HEAD % (f.xml, g.xml) + "\n".join(body) + '\n<xsl:text>&#10;</xsl:text>\n</xsl:template>\n</xsl:stylesheet>\n'
    return {"files": {"m.xml": m.document(), "b.xml": b.document(), "s.xsl": sheet}, "queries": queries,
            "docs": {"m": m, "b": b, "r": f, "s": g}}


# ---------------------------------------------------------------------------------------------
# event sequences for the two source-tree builders (harness request `build`)

def gen_events(r, mode, maxev):
    """balanced event string; F: anything; D/B: comments/PIs, one document element, comments/PIs"""
    def content(budget, depth):
        out = ""
        n = r.range(0, budget)
        while n > 0:
            k = r.weighted([("t", 8), ("c", 3), ("p", 2), ("s", 4), ("w", 1)] + ([("d", 1), ("r", 1)] if mode != "B" else []))
            if k == "s" and depth < 4:
                na = r.weighted([(0, 3), (1, 2), (2, 1)])
                inner = content(min(n - 1, 4), depth + 1)
                out += "s%d%sx" % (na, inner)
                n -= 1 + len(inner)
            elif k != "s":
                out += k
                n -= 1
            else:
                n -= 1
        return out
    if mode == "F":
        return content(maxev, 0) or "t"
    pre = "".join(r.choice("cp") for _ in range(r.below(3)))
    post = "".join(r.choice("cp") for _ in range(r.below(3)))
    return "%ss%d%sx%s" % (pre, r.below(3), content(maxev, 1), post)


def all_event_seqs(maxlen):
    """every fragment event sequence of at most maxlen events (elements closed at the end)"""
    alpha = ["t", "c", "p", "s0", "s1", "x", "d", "r", "w"]
    out = []

    def go(seq, depth, n):
        if n > 0:
            out.append("".join(seq) + "x" * depth)
        if n == maxlen:
            return
        for a in alpha:
            if a == "x":
                if depth > 0:
                    go(seq + [a], depth - 1, n + 1)
            elif a[0] == "s":
                go(seq + [a], depth + 1, n + 1)
            else:
                go(seq + [a], depth, n + 1)
    go([], 0, 0)
    return sorted(set(out), key=lambda x: (len(x), x))


def expected_built(mode, ev):
    """(kinds, parents) of the tree the builder must produce: buffered character data (t, d, and what follows r) becomes
    ONE text node, created when the next non-character event arrives and placed before that event's node"""
    kinds = ["F" if mode == "F" else "D"]
    parents = [-1]
    stack = [0]
    buf = False
    seen_root = False
    i = 0

    def flush():
        nonlocal buf
        if buf:
            kinds.append("t"); parents.append(stack[-1]); buf = False
    while i < len(ev):
        c = ev[i]
        if c in "td":
            buf = True
        elif c == "s":
            flush()
            na = int(ev[i + 1]); i += 1
            me = len(kinds)
            kinds.append("e"); parents.append(stack[-1])
            if mode == "B" and not seen_root:
                na += 1             # the content handler adds xmlns:xml to the document element
            seen_root = True
            for _ in range(na):
                kinds.append("a"); parents.append(me)
            stack.append(me)
        elif c == "x":
            flush(); stack.pop()
        elif c in "cp":
            flush(); kinds.append(c); parents.append(stack[-1])
        elif c == "w":
            flush(); kinds.append("t"); parents.append(stack[-1])
        elif c == "r":
            flush(); kinds.append("p"); parents.append(stack[-1]); buf = True
        i += 1
    flush()
    return "".join(kinds), parents


# ---------------------------------------------------------------------------------------------
# result tree fragments built from every kind of result event in every adjacency (stylesheet stage)

def _rtf_item(r, kind, uid, depth, earlier):
    n = uid[0] = uid[0] + 1
    if kind == "text":
        return r.choice(["<xsl:text>t%d</xsl:text>" % n, "t%d" % n, "<xsl:value-of select=\"'t%d'\"/>" % n])
    if kind == "comment":
        return "<xsl:comment>c%d</xsl:comment>" % n
    if kind == "pi":
        return "<xsl:processing-instruction name=\"p%d\">d</xsl:processing-instruction>" % n
    if kind == "copysrc":
        return "<xsl:copy-of select=\"%s\"/>" % r.choice(["/e", "/e/e[1]", "/e/text()[1]", "/e/e[last()]", "/e/node()", "//e[e][1]"])
    if kind == "copyrtf" and earlier:
        return "<xsl:copy-of select=\"$%s\"/>" % r.choice(earlier)
    if kind == "nested" and depth < 3:
        return "<xsl:variable name=\"n%d\">%s</xsl:variable><xsl:copy-of select=\"$n%d\"/>" % (
            n, gen_rtf_body(r, uid, depth + 1, earlier, r.range(1, 4)), n)
    if kind == "apply":
        return "<xsl:for-each select=\"/e/e[1]\"><xsl:copy><xsl:text>t%d</xsl:text><xsl:comment>c%d</xsl:comment></xsl:copy></xsl:for-each>" % (n, n)
    # element
    attrs = ""
    if r.chance(1, 3):
        attrs += " a%d=\"v\"" % n
    if r.chance(1, 5):
        attrs += " xmlns:q%d=\"urn:q%d\"" % (n, n)
    inner = ""
    if r.chance(1, 4):
        inner += "<xsl:attribute name=\"b%d\">w</xsl:attribute>" % n
    if r.chance(1, 6):
        inner += "<xsl:copy-of select=\"/e/@k\"/>"
    if depth < 3:
        inner += gen_rtf_body(r, uid, depth + 1, earlier, r.range(0, 4))
    if r.chance(1, 4):
        return "<xsl:element name=\"e%d\">%s</xsl:element>" % (n, inner)
    return "<e%d%s>%s</e%d>" % (n, attrs, inner, n)


RTF_KINDS = [("text", 9), ("comment", 4), ("pi", 3), ("element", 5), ("copysrc", 2), ("copyrtf", 2), ("nested", 2), ("apply", 1)]


def gen_rtf_body(r, uid, depth, earlier, nitems):
    return "".join(_rtf_item(r, r.weighted(RTF_KINDS), uid, depth, earlier) for _ in range(nitems))


def rtf_adjacency_corpus():
    """text immediately followed by each kind of event (and each kind followed by text), at the top of a fragment and
    inside an element"""
    kinds = ["comment", "pi", "element", "copysrc", "nested", "apply", "text"]

    class Fixed:
        def choice(self, xs): return xs[0]
        def chance(self, a, b): return False
        def range(self, a, b): return a
        def weighted(self, pairs): return pairs[0][0]
        def below(self, n): return 0
    f = Fixed()
    uid = [0]
    bodies = []
    for k in kinds:
        item = _rtf_item(f, k, uid, 2, [])
        t1 = _rtf_item(f, "text", uid, 2, [])
        t2 = _rtf_item(f, "text", uid, 2, [])
        bodies.append(t1 + item + t2)
        n = uid[0] = uid[0] + 1
        bodies.append("<e%d>%s%s%s</e%d>" % (n, t1, item, t2, n))
    return bodies


RTF_SHEET_HEAD = '''<xsl:stylesheet version="1.0" xmlns:xsl="http://www.w3.org/1999/XSL/Transform" xmlns:exsl="http://exslt.org/common" exclude-result-prefixes="exsl">
<xsl:output method="text"/>
<xsl:template match="*" mode="lab">[E:<xsl:value-of select="name()"/><xsl:value-of select="@i"/>]</xsl:template>
<xsl:template match="text()" mode="lab">[T:<xsl:value-of select="."/>]</xsl:template>
<xsl:template match="comment()" mode="lab">[C:<xsl:value-of select="."/>]</xsl:template>
<xsl:template match="processing-instruction()" mode="lab">[P:<xsl:value-of select="name()"/>]</xsl:template>
<xsl:template match="@*" mode="lab">[A:<xsl:value-of select="name()"/>]</xsl:template>
<xsl:template match="*" mode="walk"><xsl:apply-templates select="." mode="lab"/><xsl:for-each select="@*"><xsl:apply-templates select="." mode="lab"/></xsl:for-each><xsl:apply-templates select="node()" mode="walk"/></xsl:template>
<xsl:template match="text()|comment()|processing-instruction()" mode="walk"><xsl:apply-templates select="." mode="lab"/></xsl:template>
<xsl:template match="/">
'''


def gen_rtf_case(r, nvars, corpus=False):
    """stylesheet that builds result tree fragments v1..vn and prints, for each, the structural pre-order walk (W), the
    nodes as `//node()|//@*` delivers them (U: merged by stored index) and a union of per-kind selections (V)"""
    uid = [0]
    bodies = rtf_adjacency_corpus() if corpus else []
    earlier = []
    decl, out = [], []
    if not corpus:
        for _ in range(nvars):
            bodies.append(gen_rtf_body(r, uid, 0, earlier, r.range(1, 6)))
            earlier = ["v%d" % (len(bodies))]       # the next body may copy the previous fragment
    for k, b in enumerate(bodies, 1):
        decl.append('<xsl:variable name="v%d">%s</xsl:variable>' % (k, b))
        ns = "exsl:node-set($v%d)" % k
        out.append('<xsl:text>&#10;W%d:</xsl:text><xsl:apply-templates select="%s/node()" mode="walk"/>' % (k, ns))
        out.append('<xsl:text>&#10;U%d:</xsl:text><xsl:for-each select="%s//node()|%s//@*"><xsl:apply-templates select="." mode="lab"/></xsl:for-each>' % (k, ns, ns))
        out.append('<xsl:text>&#10;V%d:</xsl:text><xsl:for-each select="%s//comment()|%s//text()|%s//processing-instruction()|%s//@*|%s//*">'
                   '<xsl:apply-templates select="." mode="lab"/></xsl:for-each>' % (k, ns, ns, ns, ns, ns))
    sheet = RTF_SHEET_HEAD + "\n".join(decl) + "\n" + "\n".join(out) + '\n<xsl:text>&#10;</xsl:text>\n</xsl:template>\n</xsl:stylesheet>\n'
    return sheet, bodies


# ---------------------------------------------------------------------------------------------
# documents given as XML text with every DOM node kind (requests xmldoc / identity / nodesets)

def gen_rich_xml(r, maxnodes):
    """DOCTYPE with an internal subset (ID attribute, entities with and without markup), CDATA sections next to text
    and to each other, entity references, comments, PIs, nested elements with IDs"""
    n = [0]

    def content(budget, depth):
        out = ""
        k = r.range(0, min(budget, 6))
        for _ in range(k):
            kind = r.weighted([("t", 4), ("d", 4), ("e", 4), ("c", 1), ("p", 1), ("r", 2), ("m", 1)])
            if kind == "t":
                out += "tx"
            elif kind == "d":
                out += "<![CDATA[c<d]]>"
            elif kind == "c":
                out += "<!--c-->"
            elif kind == "p":
                out += "<?p d?>"
            elif kind == "r":
                out += "&en;"
            elif kind == "m":
                out += "&em;"
            elif depth < 4:
                n[0] += 1
                me = n[0]
                out += '<e id="x%d"%s>%s</e>' % (me, ' a="v"' if r.chance(1, 2) else "", content(budget // 2, depth + 1))
        return out
    body = content(maxnodes, 1)
    return ('<?xml version="1.0"?><!DOCTYPE e [<!ATTLIST e id ID #IMPLIED><!ENTITY en "ent"><!ENTITY em "m<e/>n">]>'
            '<!--pre--><e id="x0">%s</e><?post d?>' % body)
