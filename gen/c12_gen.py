"""C12 generators: document shapes, list-operation histories, XPath union queries.
All randomness comes from the Rng passed in (seeded by VERIF_SEED in checks/c12.py).

Shape grammar (shared with harness/c12_nodelist.cpp and lean/Driver/C12.lean):
    node := 'e' digit '(' node* ')' | 't' | 'c' | 'p'      document := node*   (no top-level text,
    no adjacent text nodes, exactly one top-level element)
"""
import itertools


# ---------------------------------------------------------------------------------------------
# shapes

def gen_children(r, budget, depth, top):
    """returns (shape string, nodes used)"""
    out = []
    used = 0
    last_text = False
    n = r.range(0, 4) if depth < 5 else 0
    for _ in range(n):
        if used >= budget:
            break
        k = r.weighted([("e", 6), ("t", 3), ("c", 1), ("p", 1)])
        if k == "t":
            if last_text or top:
                continue
            out.append("t"); used += 1; last_text = True
        elif k in ("c", "p"):
            out.append(k); used += 1; last_text = False
        else:
            na = r.weighted([(0, 4), (1, 3), (2, 2), (3, 1)])
            if used + 1 + na > budget:
                na = 0
            sub, u = gen_children(r, budget - used - 1 - na, depth + 1, False)
            out.append("e%d(%s)" % (na, sub)); used += 1 + na + u; last_text = False
    return "".join(out), used


def gen_shape(r, maxnodes):
    """one document: optional leading comments/PIs, the document element, optional trailing ones"""
    pre = "".join(r.choice(["c", "p"]) for _ in range(r.weighted([(0, 6), (1, 2), (2, 1)])))
    post = "".join(r.choice(["c", "p"]) for _ in range(r.weighted([(0, 6), (1, 2), (2, 1)])))
    na = r.weighted([(0, 3), (1, 3), (2, 2), (3, 1)])
    sub, _ = gen_children(r, max(0, maxnodes - 2 - na - len(pre) - len(post)), 1, False)
    return "%se%d(%s)%s" % (pre, na, sub, post)


def parse_shape(shape, rep):
    """-> (kinds string, parents list) of the pre-order walk (document = node 0), as the three
    representations expose it: the source tree (rep 'S') gives the document element one extra
    attribute node (the implicit xmlns:xml declaration)."""
    kinds = ["D"]
    parents = [-1]
    pos = 0
    seen_doc_elem = [False]

    def nodes(parent, top):
        nonlocal pos
        while pos < len(shape) and shape[pos] != ")":
            c = shape[pos]
            if c == "e":
                na = int(shape[pos + 1])
                assert shape[pos + 2] == "("
                pos += 3
                me = len(kinds)
                kinds.append("e"); parents.append(parent)
                if top and rep == "S" and not seen_doc_elem[0]:
                    na += 1
                if top:
                    seen_doc_elem[0] = True
                for _ in range(na):
                    kinds.append("a"); parents.append(me)
                nodes(me, False)
                assert shape[pos] == ")"
                pos += 1
            else:
                assert c in "tcp"
                kinds.append(c); parents.append(parent)
                pos += 1
    nodes(0, True)
    assert pos == len(shape), shape
    return "".join(kinds), parents


def all_shapes(maxnodes):
    """every document shape with at most `maxnodes` nodes below the document node: one document
    element, elements with 0..2 attributes, text/comment leaves (small-scope exhaustive tier)"""
    from functools import lru_cache

    @lru_cache(None)
    def seqs(budget, allow_text_first):
        # sequences of child nodes using exactly <= budget nodes: list of (string, used)
        res = [("", 0)]
        if budget <= 0:
            return res
        # first child choices
        firsts = []
        if allow_text_first:
            firsts.append(("t", 1, False))
        firsts.append(("c", 1, True))
        for na in range(0, 3):
            if 1 + na <= budget:
                for sub, u in seqs(budget - 1 - na, True):
                    firsts.append(("e%d(%s)" % (na, sub), 1 + na + u, True))
        for f, u, nxt_text in firsts:
            if u > budget:
                continue
            for rest, u2 in seqs(budget - u, nxt_text):
                res.append((f + rest, u + u2))
        return res
    out = set()
    for na in range(0, 3):
        if 1 + na > maxnodes:
            continue
        for sub, u in seqs(maxnodes - 1 - na, True):
            out.add("e%d(%s)" % (na, sub))
    return sorted(out, key=lambda s: (len(s), s))


# ---------------------------------------------------------------------------------------------
# list histories

NLISTS = 4


def gen_history(r, docsizes, maxops, style):
    """docsizes: {doc id: node count}.  style 'pure': ordered inserts and merges only;
    'wild': every public mutator.  Returns request lines (lists 0..NLISTS-1 are cleared first).
    Positions are arbitrary numbers (the protocol reduces them modulo the current length) and the
    harness refuses ordered inserts on lists holding nulls, so no state needs tracking here."""
    ops = ["new %d" % i for i in range(NLISTS)]
    docs = sorted(docsizes)
    multi = len(docs) > 1 and r.chance(1, 3)
    home = r.choice(docs)

    def node():
        d = r.choice(docs) if multi else home
        n = docsizes[d]
        if r.chance(1, 12) or n <= 1:
            return "d%d.0" % d
        return "d%d.%d" % (d, r.range(1, n - 1))

    nops = r.range(1, maxops)
    for _ in range(nops):
        i = r.below(2) if r.chance(2, 3) else r.below(NLISTS)
        j = (i + 1 + r.below(NLISTS - 1)) % NLISTS
        if style == "pure":
            k = r.weighted([("addo", 14), ("addso", 3), ("addsb", 2), ("addsx", 1), ("new", 1), ("orderd", 1)])
        else:
            k = r.weighted([("addo", 10), ("add", 3), ("addso", 3), ("addsb", 2), ("addsx", 1), ("new", 1),
                            ("order", 2), ("reverse", 2), ("setnull", 1), ("clearnulls", 2), ("ins", 1), ("rm", 1),
                            ("rmn", 1), ("swap", 1), ("copy", 1), ("copyb", 1)])
        if k in ("addo", "add", "rmn"):
            ops.append("%s %d %s" % (k, i, node()))
        elif k in ("addso", "addsb", "addsx", "swap", "copy", "copyb"):
            ops.append("%s %d %d" % (k, i, j))
        elif k in ("new", "reverse", "clearnulls"):
            ops.append("%s %d" % (k, i))
        elif k == "orderd":
            ops.append("order %d d" % i)
        elif k == "order":
            ops.append("order %d %s" % (i, r.choice(["u", "d", "r"])))
        elif k in ("setnull", "rm"):
            ops.append("%s %d %d" % (k, i, r.below(64)))
        elif k == "ins":
            ops.append("ins %d %s %d" % (i, node(), r.below(64)))
    return ops


# ---------------------------------------------------------------------------------------------
# XPath union queries (operands are evaluated alone first; see checks/c12.py)

OPERANDS = [
    "//e", "//@*", "//text()", "//comment()", "//node()", "/*", "/.", "//e[1]", "//e[last()]", "//e/e",
    "//e[@a1]", "//e/@a1", "//e/@a2", "//*[e]", "ancestor::*", "ancestor-or-self::node()", "preceding::node()",
    "following::node()", "following::e", "preceding-sibling::node()", "following-sibling::node()", "..", ".",
    "descendant::e", "descendant-or-self::node()", "*", "@*", "node()", "//e[2]/following-sibling::node()",
    "(//e)[position()<3]", "//e[count(*)>1]", "//e[not(*)]", "//processing-instruction()", "../@*", "//e/..",
    "preceding::e[1]", "ancestor::e[1]", "//e[position()mod2=0]",
]


def gen_union_shapes(r):
    """-> list of operand-index tuples structures to query: ('u', [a, b, c]) flat union a|b|c and the
    algebraic variants the property names"""
    a, b, c = r.choice(OPERANDS), r.choice(OPERANDS), r.choice(OPERANDS)
    forms = [[a, b], [b, a], [a, a], [a, b, c], [c, b, a], [b, a, a, c]]
    return a, b, c, forms
