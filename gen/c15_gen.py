"""C15 generator and renderer: key() scenarios.

A *case* is a dict
  docs   : [tree, …]           tree = ('R', [kids]); kid = ('E', name, [(aname, aval)…], [kids], nsdecl) |
                               ('T', text) | ('C', text) | ('P', target, data);   docs[0] = main source
  rtf    : [k, …]              documents (k >= 1) that are result tree fragments (xsl:variable + xalan:nodeset) instead of
                               document() loads
  sheets : [(sid, parent|None, kind)]   sid 0 = root module; kind 'import' | 'include'
  decls  : [(sid, name, pattern, use)]  name = 'k' or '{uri}k'; pattern / use = XPath texts of the fragment
                                        understood by lean/XalanModel/C15/Concrete.lean
  calls  : (optional 'form': 'pred'|'step' with 'cur', 'curctx': key() inside a predicate over all nodes of doc while the XSLT
            current node is node curctx of document cur)
           [{'doc': k, 'ctx': j, 'name': n, 'kind': 'str', 'value': v} |     (ctx: 0 root, j>0 j-th non-attribute node,
                                                                              j<0 (-j)-th attribute, as context node)
            {'doc': k, 'ctx': j, 'name': n, 'kind': 'ns', 'argdoc': d, 'pat': p}]
`request_lines(case)` gives the protocol lines (model lines + `file` lines for the harness + `run`).
All randomness comes from the Rng passed in.
"""

ELEMS = ["a", "b", "c", "d"]
ATTRS = ["x", "y", "z"]
VALS = ["u", "v", "w", "1", "2", ""]
PIS = ["p", "q"]
NSMAP = {"urn:q": ["q", "r"], "urn:o": ["o"]}   # uri -> prefixes declared on every xsl:stylesheet element
KEYNAMES = ["k", "m", "{urn:q}k", "{urn:q}m"]
UNDECLARED = ["zz", "{urn:o}k", "{urn:q}zz"]


# ------------------------------------------------------------------ documents
def gen_elem(r, budget, depth):
    name = r.choice(ELEMS)
    attrs = []
    for a in ATTRS:
        if r.chance(2, 5):
            attrs.append((a, r.choice(VALS)))
    attrs = r.shuffle(attrs)
    kids = []
    last_text = False
    n = r.weighted([(0, 3), (1, 3), (2, 3), (3, 2), (4, 1)]) if depth < 4 else r.weighted([(0, 3), (1, 1)])
    for _ in range(n):
        if budget[0] <= 0:
            break
        k = r.weighted([("E", 12), ("T", 6), ("C", 2), ("P", 2), ("W", 1)])
        if k == "E" and depth < 4:
            budget[0] -= 1
            kids.append(gen_elem(r, budget, depth + 1)); last_text = False
        elif k == "T":
            if last_text:
                continue
            budget[0] -= 1
            kids.append(("T", r.choice([v for v in VALS if v]))); last_text = True
        elif k == "W":      # a whitespace-only text node (kept unless xsl:strip-space applies to this element)
            if last_text:
                continue
            budget[0] -= 1
            kids.append(("T", " ")); last_text = True
        elif k == "C":
            budget[0] -= 1
            kids.append(("C", r.choice(VALS))); last_text = False
        elif k == "P":
            budget[0] -= 1
            kids.append(("P", r.choice(PIS), r.choice(VALS))); last_text = False
    return ("E", name, attrs, kids, r.chance(1, 6))


def gen_doc(r, maxnodes):
    budget = [r.range(1, maxnodes)]
    kids = []
    if r.chance(1, 8):
        kids.append(("C", r.choice(VALS)))
    kids.append(gen_elem(r, budget, 1))
    if r.chance(1, 8):
        kids.append(("P", r.choice(PIS), r.choice(VALS)))
    return ("R", kids)


def tok(v):
    """protocol token of a value: "-" = empty string, "~" = a space (values are alphanumeric otherwise)"""
    return v.replace(" ", "~") if v != "" else "-"


def strip_pred(case):
    """element name -> are its whitespace-only text children stripped?  xsl:strip-space / xsl:preserve-space with XSLT 1.0
    3.4 conflict resolution: a name test (priority 0) beats `*` (priority -0.5); the generator never puts one name in both"""
    st, pr = case.get("strip") or [], case.get("preserve") or []
    if not st:
        return None

    def f(name):
        if name in pr:
            return False
        if name in st:
            return True
        if "*" in pr and "*" not in st:
            return False
        return "*" in st
    return f


def drop_stripped_ws(t, f):
    """remove the whitespace-only text nodes that xsl:strip-space removes (the model's document is the stripped one)"""
    def go(n):
        if n[0] == "R":
            return ("R", [go(k) for k in n[1]])
        if n[0] == "E":
            ks = [go(k) for k in n[3] if not (k[0] == "T" and k[1].strip() == "" and f is not None and f(n[1]))]
            # removing a node must not leave two text nodes adjacent
            out = []
            for k in ks:
                if out and out[-1][0] == "T" and k[0] == "T":
                    continue
                out.append(k)
            return ("E", n[1], n[2], out, n[4] if len(n) > 4 else False)
        return n
    return go(t)


def doc_tokens(t):
    out = []

    def go(n):
        if n[0] == "R":
            out.extend(["R", str(len(n[1]))])
            for k in n[1]:
                go(k)
        elif n[0] == "E":
            out.extend(["EN" if (len(n) > 4 and n[4]) else "E", n[1], str(len(n[2])), str(len(n[3]))])
            for a, v in n[2]:
                out.extend(["A", a, tok(v)])
            for k in n[3]:
                go(k)
        elif n[0] == "T":
            out.extend(["T", tok(n[1])])
        elif n[0] == "C":
            out.extend(["C", tok(n[1])])
        elif n[0] == "P":
            out.extend(["P", n[1], tok(n[2])])
    go(t)
    return out


def doc_xml(t, strip=None):
    """strip: None, or the predicate `strip_pred(case)` (element name -> stripped?) — whitespace-only text nodes are
    then put between the children of exactly those elements (never next to a text node), so that the document *after*
    stripping is the tree `t`"""
    out = []

    def ws(n, i):
        if strip is None or n[0] != "E" or not strip(n[1]):
            return ""
        ks = n[3]
        left_text = i > 0 and ks[i - 1][0] == "T"
        right_text = i < len(ks) and ks[i][0] == "T"
        return "" if (left_text or right_text) else (" " if (i + len(ks)) % 2 else "\n  ")

    def go(n):
        if n[0] == "R":
            for k in n[1]:
                go(k)
        elif n[0] == "E":
            out.append("<" + n[1])
            if len(n) > 4 and n[4]:
                out.append(' xmlns:zz="urn:zz"')
            for a, v in n[2]:
                out.append(' %s="%s"' % (a, v))
            if n[3] or ws(n, 0):
                out.append(">")
                for i, k in enumerate(n[3]):
                    out.append(ws(n, i))
                    go(k)
                out.append(ws(n, len(n[3])))
                out.append("</%s>" % n[1])
            else:
                out.append("/>")
        elif n[0] == "T":
            out.append(n[1])
        elif n[0] == "C":
            out.append("<!--%s-->" % n[1])
        elif n[0] == "P":
            out.append("<?%s %s?>" % (n[1], n[2]) if n[2] else "<?%s?>" % n[1])
    go(t)
    return "<?xml version=\"1.0\"?>" + "".join(out)


def doc_literal(t):
    """the tree as the content of an xsl:variable (a result tree fragment)"""
    out = []

    def go(n):
        if n[0] == "R":
            for k in n[1]:
                go(k)
        elif n[0] == "E":
            out.append("<" + n[1])
            if len(n) > 4 and n[4]:
                out.append(' xmlns:zz="urn:zz"')
            for a, v in n[2]:
                out.append(' %s="%s"' % (a, v))
            out.append(">")
            for k in n[3]:
                go(k)
            out.append("</%s>" % n[1])
        elif n[0] == "T":
            out.append("<xsl:text>%s</xsl:text>" % n[1])
        elif n[0] == "C":
            out.append("<xsl:comment>%s</xsl:comment>" % n[1])
        elif n[0] == "P":
            out.append('<xsl:processing-instruction name="%s">%s</xsl:processing-instruction>' % (n[1], n[2]))
    go(t)
    return "".join(out)


def doc_nodes(t):
    """document order list of (kind, name, value, parent index) — python mirror used for statistics / arg sizes"""
    res = []

    def text_of(n):
        if n[0] == "T":
            return n[1]
        if n[0] in ("E", "R"):
            return "".join(text_of(k) for k in (n[3] if n[0] == "E" else n[1]))
        return ""

    def go(n, par):
        me = len(res)
        if n[0] == "R":
            res.append(("root", "", text_of(n), None))
            for k in n[1]:
                go(k, me)
        elif n[0] == "E":
            res.append(("elem", n[1], text_of(n), par))
            for a, v in n[2]:
                res.append(("attr", a, v, me))
            for k in n[3]:
                go(k, me)
        elif n[0] == "T":
            res.append(("text", "", n[1], par))
        elif n[0] == "C":
            res.append(("comment", "", n[1], par))
        elif n[0] == "P":
            res.append(("pi", n[1], n[2], par))
    go(t, None)
    return res


# ------------------------------------------------------------------ patterns and use expressions
def gen_pred(r):
    if r.chance(1, 10):
        return r.choice(PRED_QNAME)
    if r.chance(1, 3):      # positional predicate (position among the siblings passing the node test)
        return r.choice(["[1]", "[2]", "[last()]", "[1]", "[3]"])
    k = r.below(4)
    if k == 0:
        return "[@%s]" % r.choice(ATTRS)
    if k == 1:
        return "[@%s='%s']" % (r.choice(ATTRS), r.choice([v for v in VALS if v]))
    if k == 2:
        return "[not(@%s)]" % r.choice(ATTRS)
    return "[%s]" % r.choice(ELEMS)


def gen_elem_step(r):
    s = r.choice(ELEMS) if r.chance(3, 4) else "*"
    if r.chance(1, 6):
        s += gen_pred(r)
    return s


def gen_last_step(r):
    k = r.weighted([("e", 10), ("@", 4), ("@*", 2), ("text()", 2), ("node()", 1), ("comment()", 1),
                    ("processing-instruction()", 1)])
    if k == "e":
        return gen_elem_step(r)
    if k == "@":
        k = "@" + r.choice(ATTRS)
    if r.chance(1, 8):      # positional predicate on an attribute / text() / node() / comment() / pi step
        k += r.choice(["[1]", "[2]", "[last()]"])
    return k


def gen_path(r):
    k = r.weighted([("rel", 14), ("abs", 3), ("dabs", 2), ("root", 1)])
    if k == "root":
        return "/"
    n = r.weighted([(1, 10), (2, 4), (3, 1)])
    steps = [gen_elem_step(r) for _ in range(n - 1)] + [gen_last_step(r)]
    # `//` between any two steps (the matcher backtracks over the ancestors since /repo commit 3a0cdb4; before it,
    # DESIGN.md section 6 item 16, only the first separator of a relative pattern was generated as `//`)
    s = steps[0]
    for st in steps[1:]:
        s += ("//" if r.chance(1, 4) else "/") + st
    if k == "rel":
        return s
    if k == "abs":
        return "/" + s
    return "//" + s


def gen_pattern(r):
    ps = [gen_path(r)]
    if r.chance(3, 10):
        ps.append(gen_path(r))
    if "/" in ps and len(ps) > 1:  # keep the lone "/" last (Xalan's parser rejects "/|…")
        ps = [p for p in ps if p != "/"] + ["/"]
        if len(ps) > 2:
            ps = ps[-2:]
    return "|".join(ps)


USE_PATHS = ["@x", "@y", "@*", ".", "b", "a", "*", "text()", "../@x", "b/@x", "..", "*/@y", ".//b", "node()", ".//@x",
             "c/text()"]
USE_SCALARS = ["string(@x)", "string(@y)", "name()", "'u'", "count(*)", "count(@*)", "@x='u'", "string(.)", "string(b)",
               "concat(string(@x),'-',string(@y))", "concat(name(),string(@x))", "string(../@x)", "count(.//b)",
               "string(text())", "position()", "last()", "concat(name(),position())", "concat(last(),'-',string(@x))"]


# `use` / match-predicate expressions whose evaluation resolves *another* QName at run time (decimal-format name, function
# or element name, system property name).  XSLT: key(name, …) looks the table up by the expanded name it is given, whatever
# the use expressions compute while the table is built.
USE_QNAME = ["format-number(count(*),'0','df')", "format-number(count(@*),'0','q:df')", "function-available('concat')",
             "element-available('xsl:if')", "system-property('xsl:version')", "concat(name(),function-available('concat'))",
             "concat(string(@x),system-property('xsl:version'))", "format-number(count(.//b),'0','df')"]
PRED_QNAME = ["[function-available('concat')]", "[element-available('xsl:if')]"]


def resolves_qname(text):
    """does evaluating this use / match text resolve a QName at run time?"""
    return any(f in text for f in ("format-number(", "function-available(", "element-available("))


def gen_use(r, allow_ns=True):
    if r.chance(1, 8):
        return r.choice(USE_QNAME)
    if allow_ns and r.chance(1, 14):
        # namespace nodes as key values (their string value is the namespace URI); not with result tree fragments, whose
        # elements also carry the stylesheet's namespaces
        return r.choice(["namespace::*", "namespace::*", "count(namespace::*)", "../namespace::*"])
    return r.choice(USE_PATHS) if r.chance(3, 5) else r.choice(USE_SCALARS)


def use_is_path(u):
    return not (u.startswith("concat(") or u in ("name()", "position()", "last()") or u.startswith("format-number(")
                or u.startswith("function-available(") or u.startswith("element-available(") or u.startswith("system-property(") or u.startswith("'") or u.startswith("string(")
                or u.startswith("count(") or "='" in u)


# ------------------------------------------------------------------ cases
def gen_case(r, cid, big=False):
    ndocs = r.weighted([(1, 4), (2, 4), (3, 2)])
    ws = {}
    if r.chance(1, 4):
        # xsl:strip-space (and, half of the time, xsl:preserve-space for other name tests): whitespace-only text nodes of
        # the stripped elements are not in the model's documents, those of the preserved ones are ordinary text nodes
        names = r.shuffle(ELEMS)
        k = r.range(1, 2)
        if r.chance(1, 2):
            ws["strip"] = ["*"]
            if r.chance(1, 2):
                ws["preserve"] = names[:k]
        else:
            ws["strip"] = names[:k]
            if r.chance(1, 2):
                ws["preserve"] = ["*"] if r.chance(1, 2) else names[k:k + 1]
    spred = strip_pred(ws)
    docs = [drop_stripped_ws(gen_doc(r, 40 if big else 20), spred) for _ in range(ndocs)]
    rtf = [k for k in range(1, ndocs) if r.chance(1, 3)]
    for k in rtf:       # result tree fragments are not subject to the source-document whitespace rules: keep them free of it
        docs[k] = drop_stripped_ws(docs[k], lambda name: True)
    # modules: 0 root; others import / include chains
    sheets = [(0, None, "root")]
    nmod = r.weighted([(1, 5), (2, 3), (3, 2), (4, 1)])
    for sid in range(1, nmod):
        if r.chance(3, 4):
            # xsl:import only from modules that are not themselves included
            cands = [s for (s, _, kind) in sheets if kind != "include"]
            sheets.append((sid, r.choice(cands), "import"))
        else:
            sheets.append((sid, r.below(sid), "include"))
    names = r.shuffle(KEYNAMES)[: r.range(1, 3)]
    decls = []
    nd = r.weighted([(1, 3), (2, 4), (3, 3), (4, 2), (5, 1)])
    for _ in range(nd):
        decls.append((r.below(nmod), r.choice(names), gen_pattern(r), gen_use(r, allow_ns=not rtf)))
    calls = []
    nc = r.range(2, 10 if not big else 16)
    allvals = VALS + [" ", "urn:zz", "http://www.w3.org/XML/1998/namespace", "0", "3", "true", "false", "a", "b", "u-v", "au", "uv"]
    for _ in range(nc):
        k = r.below(ndocs)
        nn = sum(1 for n in doc_nodes(docs[k]) if n[0] not in ("attr",))
        c = {"doc": k, "ctx": r.below(nn), "name": r.choice(names) if r.chance(9, 10) else r.choice(KEYNAMES)}
        na = sum(1 for n in doc_nodes(docs[k]) if n[0] == "attr")
        if na and r.chance(1, 6):
            c["ctx"] = -(1 + r.below(na))      # context node = the (-ctx)-th attribute of the document
        if c["name"] not in [d[1] for d in decls]:
            c["name"] = decls[0][1]
        if r.chance(1, 3):
            # key() evaluated with an XPath context node that is not the XSLT current node: inside a predicate (`pred`) or as
            # the head of a path inside a predicate (`step`) applied to every node of document `doc`, while the current node
            # is node `curctx` of document `cur` (any document, mostly another one)
            c["form"] = r.choice(["pred", "pred", "step"])
            others = [j for j in range(ndocs) if j != k]
            c["cur"] = r.choice(others) if (others and r.chance(4, 5)) else k
            ncur = sum(1 for n in doc_nodes(docs[c["cur"]]) if n[0] != "attr")
            c["curctx"] = r.below(ncur)
            c["ctx"] = 0
            # the same key() call also from another call site evaluated while the current node is that node of `cur`:
            # an xsl:with-param select, an attribute value template, or an xsl:sort key (the sort key is evaluated with the
            # sorted node as XPath context node while the XSLT current node stays the outer one)
            c["extra"] = r.choice([None, "param", "avt", "sort", "sort"])
        if r.chance(3, 5):
            c["kind"] = "str"
            if r.chance(1, 2):
                c["value"] = r.choice(allvals)
            else:   # a value that occurs in the context document (string value or name of one of its nodes)
                nd = r.choice(doc_nodes(docs[k]))
                c["value"] = nd[2] if (r.chance(3, 4) or not nd[1]) else nd[1]
        else:
            c["kind"] = "ns"; c["argdoc"] = r.below(ndocs)
            if ndocs > 1 and r.chance(1, 4):
                # a node-set argument whose nodes come from two documents (source / document() / result tree fragment)
                c["argdoc2"] = r.choice([j for j in range(ndocs) if j != c["argdoc"]])
            c["pat"] = r.choice(["*", "@*", "@x", "@y", "b", "a", "text()", "a/@x", "c", "d", "*[@x]", "b|@x", "comment()",
                                 "a[not(@x)]", "zzz", "node()", "a|b|c", "*[1]", "b[last()]", "*[@x][1]"])
        if c.get("form") and ndocs > 1 and r.chance(1, 3):
            # context nodes from TWO documents in one expression: the predicate filters the nodes of doc and of doc2; the
            # result holds, side by side, what each document's own table answers (XSLT 12.2: the context node's document)
            c["doc2"] = r.choice([j for j in range(ndocs) if j != c["doc"]])
            c["extra"] = None
        if not c.get("form") and r.chance(1, 10):
            c["ctx"] = "ns"      # the context node is a namespace node (of the first element) of the document
        calls.append(c)
    if r.chance(1, 3) and calls:   # repeat an earlier call (cache hit on a built table)
        calls.append(dict(r.choice(calls)))
    calls = r.shuffle(calls)
    case = {"id": cid, "docs": docs, "sheets": sheets, "decls": decls, "calls": calls, "rtf": rtf}
    case.update(ws)
    # namespace declarations around the names (XSLT 2.4): a default namespace on xsl:stylesheet (per module), on the xsl:key
    # element, on the template holding the key() calls, on the instruction holding a call — independently; prefixed names
    # through a stylesheet-level prefix, a prefix declared on the element itself, or a stylesheet-level prefix re-declared
    # there for another URI
    def modes(n):
        return [[j, r.choice(["local", "local", "rebind"])] for j in range(n) if r.chance(1, 4)]
    case["nsopt"] = {
        "sheet_default": [sid for (sid, _, _) in sheets if r.chance(1, 4)],
        "key_default": [j for j in range(len(decls)) if r.chance(1, 4)],
        "tmpl_default": r.chance(1, 4),
        "call_default": [i for i in range(len(calls)) if r.chance(1, 5)],
        "key_mode": modes(len(decls)),
        "call_mode": modes(len(calls) + 2),
    }
    if r.chance(1, 12):
        # error scenario: a name no module declares (or no declaration at all)
        if r.chance(1, 4):
            case["decls"] = []
            case["calls"] = case["calls"][:3]
        else:
            c = dict(r.choice(calls)); c["name"] = r.choice(UNDECLARED)
            case["calls"] = case["calls"][: r.below(len(calls) + 1)] + [c]
    if r.chance(1, 40):
        # key() inside use / match: XSLT 1.0 only forbids circular definitions, Xalan rejects every such declaration when
        # the stylesheet is compiled ("… cannot contain a call to the key() function") — the transformation must fail
        # with that error rather than build a table (KeyTable would otherwise recurse into itself)
        ds = case["decls"]
        nm = ds[0][1] if ds else "k"
        if r.chance(1, 3):
            # namespace nodes cannot be match targets: patterns allow the child and attribute axes only
            case["decls"] = ds + [(0, nm, "namespace::*", ".")]
        elif r.chance(1, 2):
            case["decls"] = ds + [(0, nm, "a", "count(key('%s',@x))" % lex_name(None, nm))]
        else:
            case["decls"] = ds + [(0, nm, "a[key('%s','u')]" % lex_name(None, nm), "@x")]
        case["expect_compile_error"] = True
    return case


# ------------------------------------------------------------------ rendering
XSLNS = "http://www.w3.org/1999/XSL/Transform"


def lex_name(r_or_none, name, salt=0):
    """'{uri}local' -> 'prefix:local' using one of the declared prefixes"""
    if name.startswith("{"):
        uri, local = name[1:].split("}")
        ps = NSMAP[uri]
        return ps[salt % len(ps)] + ":" + local
    return name


DEFAULT_NS = "urn:d"


def sheet_ctx(case, sid):
    """namespace declarations on the xsl:stylesheet element of module sid: the prefixes of NSMAP and, for the modules
    listed in nsopt.sheet_default, a default namespace"""
    b = [(p, u) for u, ps in sorted(NSMAP.items()) for p in ps]
    if sid in (case.get("nsopt") or {}).get("sheet_default", []):
        b.append(("", DEFAULT_NS))
    return b


def name_site(case, kind, j, name, sid):
    """how the expanded name `name` is written at a site (kind 'key': the j-th xsl:key declaration, 'call': the j-th key() call):
    -> (lexical QName, namespace declarations to put on the element itself, all bindings in scope there, outermost first).
    XSLT 2.4: the default namespace never applies to the name of an XSLT object; a prefix is expanded with the innermost
    declaration in scope at the point of use."""
    o = case.get("nsopt") or {}
    ctx = sheet_ctx(case, sid)
    attrs = ""
    if kind == "call" and o.get("tmpl_default"):
        ctx.append(("", DEFAULT_NS))          # xmlns="urn:d" on the xsl:template holding the calls
    if j in o.get(kind + "_default", []):
        attrs += ' xmlns="%s"' % DEFAULT_NS
        ctx.append(("", DEFAULT_NS))
    mode = dict((a, b) for a, b in o.get(kind + "_mode", [])).get(j, "global")
    if name.startswith("{"):
        uri, local = name[1:].split("}")
        if mode == "local":              # a prefix declared on the element itself
            pfx = "l%s%d" % (kind[0], j)
        elif mode == "rebind":           # a stylesheet-level prefix of another URI, re-declared on the element
            pfx = [ps[0] for u, ps in sorted(NSMAP.items()) if u != uri][0]
        else:
            pfx = None
        if pfx is None:
            ps = NSMAP[uri]
            lex = ps[j % len(ps)] + ":" + local
        else:
            attrs += ' xmlns:%s="%s"' % (pfx, uri)
            ctx.append((pfx, uri))
            lex = pfx + ":" + local
    else:
        lex = name
    return lex, attrs, ctx


def ctx_token(ctx):
    return ";".join("%s=%s" % (p, u) for p, u in ctx) or "-"


def pattern_as_nodeset(pat, base=""):
    """the node-set of all nodes (of the context's / of `base`'s document) that match the pattern"""
    parts = []
    for p in pat.split("|"):
        if p.startswith("/"):
            parts.append(base + p if p != "/" or not base else base)
        else:
            parts.append(base + "//" + p)
    parts = [p for p in parts if p != "/"] + [p for p in parts if p == "/"]
    return "|".join(parts)


def brute(decls, name, rhs, base=""):
    """the defining expression of key(name, rhs) for a context node in the current document, as a pair
    (all alternatives that cannot select the document node, the alternatives `/`): Xalan's union orders a document
    node after every other node (C12), so the root is kept out of every `|`"""
    alts, roots = [], []
    for (_, n, pat, use) in decls:
        if n != name:
            continue
        # inside `use` the current node list holds just the node (XSLT 1.0 12.2): position() = last() = 1; inside the
        # predicate of the brute-force expression they would mean something else, so the constant is written out
        buse = use.replace("position()", "1").replace("last()", "1")
        test = ("%s=%s" % (buse, rhs)) if use_is_path(use) else ("string(%s)=%s" % (buse, rhs))
        paths = pat.split("|")
        rest = "|".join(p for p in paths if p != "/")
        if rest:
            alts.append("(%s)[%s]" % (pattern_as_nodeset(rest, base), test))
        if "/" in paths:
            roots.append("(%s)[%s]" % (base or "/", test))
    empty = "/*[false()]"
    return ("|".join(alts) or empty, "|".join(roots) or empty)


def module_file(sid):
    return "main.xsl" if sid == 0 else "mod%d.xsl" % sid


def render_sheet(case, sid):
    nsd = "".join(' xmlns:%s="%s"' % (p, u) for u, ps in sorted(NSMAP.items()) for p in ps)
    nsd += ' xmlns:x="http://xml.apache.org/xalan"'
    rtf = case.get("rtf", [])
    if sid in (case.get("nsopt") or {}).get("sheet_default", []):
        nsd += ' xmlns="%s"' % DEFAULT_NS
    out = ['<?xml version="1.0"?><xsl:stylesheet version="1.0" xmlns:xsl="%s"%s>' % (XSLNS, nsd)]
    for (s, par, kind) in case["sheets"]:
        if par == sid and kind == "import":
            out.append('<xsl:import href="%s"/>' % module_file(s))
    own = [(j, d) for j, d in enumerate(case["decls"]) if d[0] == sid]

    def key_elem(j, d):
        lex, attrs, _ = name_site(case, "key", j, d[1], sid)
        return '<xsl:key%s name="%s" match="%s" use="%s"/>' % (attrs, lex, d[2], d[3])
    incs = [s for (s, par, kind) in case["sheets"] if par == sid and kind == "include"]
    # first half of the own declarations, the includes, the rest
    h = len(own) // 2
    for (j, d) in own[:h]:
        out.append(key_elem(j, d))
    for s in incs:
        out.append('<xsl:include href="%s"/>' % module_file(s))
    for (j, d) in own[h:]:
        out.append(key_elem(j, d))
    if sid == 0:
        out.append('<xsl:output method="text"/>')
        out.append('<xsl:decimal-format name="df"/><xsl:decimal-format name="q:df"/>')
        if case.get("strip"):
            out.append('<xsl:strip-space elements="%s"/>' % " ".join(case["strip"]))
            if case.get("preserve"):
                out.append('<xsl:preserve-space elements="%s"/>' % " ".join(case["preserve"]))
        nd = len(case["docs"])
        out.append('<xsl:variable name="D0" select="/"/>')
        for k in range(1, nd):
            if k in rtf:
                out.append('<xsl:variable name="F%d" xmlns="">%s</xsl:variable><xsl:variable name="D%d" select="x:nodeset($F%d)"/>'
                           % (k, doc_literal(case["docs"][k]), k, k))
            else:
                out.append('<xsl:variable name="D%d" select="document(\'d%d.xml\')"/>' % (k, k))
        out.append('<xsl:template match="/"%s>' % (' xmlns="%s"' % DEFAULT_NS if (case.get("nsopt") or {}).get("tmpl_default") else ""))
        gid = '<xsl:value-of select="generate-id()"/><xsl:text> </xsl:text>'
        for k in range(nd):
            out.append('<xsl:text>L %d </xsl:text><xsl:for-each select="$D%d">%s</xsl:for-each>'
                       '<xsl:for-each select="$D%d//node()|$D%d//@*">%s</xsl:for-each><xsl:text>&#10;</xsl:text>'
                       % (k, k, gid, k, k, gid))
        for i, c in enumerate(case["calls"]):
            ctx = ("($D%d//namespace::*)[1]" % c["doc"] if c["ctx"] == "ns" else
                   "$D%d" % c["doc"] if c["ctx"] == 0 else "($D%d//node())[%d]" % (c["doc"], c["ctx"]) if c["ctx"] > 0
                   else "($D%d//@*)[%d]" % (c["doc"], -c["ctx"]))
            if c["kind"] == "str":
                rhs = "'%s'" % c["value"]
                pre = ""
            else:
                rhs = "$A"
                asel = pattern_as_nodeset(c["pat"], "$D%d" % c["argdoc"])
                if c.get("argdoc2") is not None:
                    asel += "|" + pattern_as_nodeset(c["pat"], "$D%d" % c["argdoc2"])
                pre = '<xsl:variable name="A" select="%s"/>' % asel
            bmain, broot = brute(case["decls"], c["name"], rhs, "$D%d" % c["doc"])
            if c.get("doc2") is not None:
                bm2, br2 = brute(case["decls"], c["name"], rhs, "$D%d" % c["doc2"])
                bmain, broot = "%s|%s" % (bmain, bm2), "%s|%s" % (broot, br2)
            clex, cattrs, _ = name_site(case, "call", i, c["name"], 0)
            kcall = "key('%s',%s)" % (clex, rhs)
            form = c.get("form", "top")
            if form == "top":
                ksel = kcall
            else:
                # the XSLT current node is `ctx` (a node of document cur); key() runs once per node of document doc with
                # that node as XPath context node; K = the nodes of doc that are in their own key() result
                cur, j = c["cur"], c["curctx"]
                ctx = "$D%d" % cur if j == 0 else "($D%d//node())[%d]" % (cur, j)
                kk = kcall if form == "pred" else kcall + "/self::node()"
                alln = "$D%d//node()|$D%d//@*|$D%d" % (c["doc"], c["doc"], c["doc"])
                if c.get("doc2") is not None:
                    alln += "|$D%d//node()|$D%d//@*|$D%d" % (c["doc2"], c["doc2"], c["doc2"])
                ksel = "(%s)[count(.|%s)=count(%s)]" % (alln, kk, kk)
            extra = ""
            ex = c.get("extra") if form != "top" else None
            alld = "$D%d//node()|$D%d//@*|$D%d" % (c["doc"], c["doc"], c["doc"])
            if ex == "param":
                extra = ('<xsl:text>X param </xsl:text><xsl:call-template name="show"><xsl:with-param name="P" select="%s"/>'
                         '</xsl:call-template>' % ksel)
            elif ex == "avt":
                extra = ('<xsl:variable name="T" xmlns=""><e a="{count(%s)}"/></xsl:variable><xsl:text>X avt </xsl:text>'
                         '<xsl:value-of select="x:nodeset($T)/e/@a"/>' % ksel)
            elif ex == "sort":
                extra = ('<xsl:text>X sort </xsl:text><xsl:for-each select="%s"><xsl:sort select="count(.|%s)=count(%s)"/>%s'
                         '</xsl:for-each>' % (alld, kcall, kcall, gid))
            out.append('<xsl:for-each%s select="%s">%s<xsl:variable name="K" select="%s"/>'
                       '<xsl:variable name="B" select="%s"/><xsl:variable name="R" select="%s"/>'
                       '<xsl:text>Q %d </xsl:text><xsl:value-of select="count($K)"/><xsl:text> </xsl:text>'
                       '<xsl:value-of select="count($B)"/><xsl:text> </xsl:text><xsl:value-of select="count($K|$B)"/>'
                       '<xsl:text> K </xsl:text><xsl:for-each select="$K">%s</xsl:for-each>'
                       '<xsl:text>B </xsl:text><xsl:for-each select="$B">%s</xsl:for-each>'
                       '<xsl:text>R </xsl:text><xsl:for-each select="$R">%s</xsl:for-each>%s<xsl:text>&#10;</xsl:text>'
                       '</xsl:for-each>'
                       % (cattrs, ctx, pre, ksel, bmain, broot, i, gid, gid, gid, extra))
        out.append('</xsl:template>')
        out.append('<xsl:template name="show"><xsl:param name="P"/><xsl:for-each select="$P">%s</xsl:for-each></xsl:template>' % gid)
    out.append('</xsl:stylesheet>')
    return "".join(out)


def hexs(s):
    b = s.encode("utf-8")
    return b.hex() if b else "-"


def request_lines(case):
    ls = ["case %s" % case["id"]]
    for k, d in enumerate(case["docs"]):
        ls.append("doc %d %s" % (k, " ".join(doc_tokens(d))))
    for (sid, par, kind) in case["sheets"]:
        if kind == "include":
            continue
        ls.append("sheet %d %s" % (sid, "-" if par is None else str(owner(case, par))))
    for j, (sid, name, pat, use) in enumerate(case["decls"]):
        lex, _, nctx = name_site(case, "key", j, name, sid)
        ls.append("decl %d %s %s %s %s" % (owner(case, sid), lex, pat, use, ctx_token(nctx)))
    for i, c in enumerate(case["calls"]):
        lex, _, nctx = name_site(case, "call", i, c["name"], 0)
        for d in call_docs(c):
            head = "call %d %d %s %s %s" % (d, c.get("cur", c["doc"]), "p" if ":" in lex else "u",
                                           "top" if c.get("form", "top") == "top" else "pred", lex)
            if c["kind"] == "str":
                ls.append("%s str %s %s" % (head, tok(c["value"]), ctx_token(nctx)))
            else:
                ad = str(c["argdoc"]) + ("+%d" % c["argdoc2"] if c.get("argdoc2") is not None else "")
                ls.append("%s ns %s %s %s" % (head, ad, c["pat"], ctx_token(nctx)))
    for k, d in enumerate(case["docs"]):
        if k not in case.get("rtf", []):
            ls.append("file %s %s" % ("main.xml" if k == 0 else "d%d.xml" % k, hexs(doc_xml(d, strip_pred(case)))))
    for (sid, _, _) in case["sheets"]:
        ls.append("file %s %s" % (module_file(sid), hexs(render_sheet(case, sid))))
    ls.append("run main.xsl main.xml")
    return ls


def call_docs(c):
    """the documents whose nodes are XPath context nodes of this call (one model call each, in this order)"""
    return [c["doc"]] + ([c["doc2"]] if c.get("doc2") is not None else [])


def owner(case, sid):
    """xsl:include parses the included module into the including Stylesheet object: its declarations belong to
    the nearest non-included ancestor module"""
    m = {s: (par, kind) for (s, par, kind) in case["sheets"]}
    while m[sid][1] == "include":
        sid = m[sid][0]
    return sid
