"""C13 generators: strip/preserve declarations (with imports/includes), documents with whitespace-only text
everywhere, stylesheet bodies exercising each observation path, XPath fragment expressions; renderers to
XML/XSLT text and to the token form read by lean/Driver/C13.lean; the XSLT 1.0 section 3.4 oracle (which
whitespace text nodes are stripped) and the physically stripped document.

All randomness comes from the Rng handed in.
"""

U1 = "urn:u1"
U2 = "urn:u2"
DOC_PREFIX = {"": "", U1: "p", U2: "r"}           # prefixes used in source documents
XSL_PREFIX = {"": "", U1: "x1", U2: "x2"}         # different prefixes in the stylesheet on purpose
ELEM_NAMES = [("", "a"), ("", "b"), ("", "c"), ("", "d"), (U1, "a"), (U1, "b"), (U2, "a")]
WS_TEXTS = [" ", "\n", "\t", "  ", "\n  ", " \n\t", "\r", " \r\n "]
NONWS_TEXTS = ["x", "yz", " x", "y ", "x y", "0", "é", "&<"]

XSLNS = "http://www.w3.org/1999/XSL/Transform"

# ------------------------------------------------------------------------------------------------------
# documents:  ("elem", (uri, local), kids, attrs) | ("text", s) | ("comment", s) | ("pi", target, data)


def gen_kids(r, depth, maxdepth, width):
    kids = []
    n = r.range(0, width)
    last_text = False
    for _ in range(n):
        k = r.weighted([("elem", 8 if depth < maxdepth else 0), ("ws", 8), ("txt", 3), ("comment", 2), ("pi", 1)])
        if k in ("ws", "txt") and last_text:
            k = "elem" if depth < maxdepth else "comment"
        if k == "elem":
            kids.append(gen_elem(r, depth + 1, maxdepth, width))
        elif k == "ws":
            kids.append(("text", r.choice(WS_TEXTS)))
        elif k == "txt":
            kids.append(("text", r.choice(NONWS_TEXTS)))
        elif k == "comment":
            kids.append(("comment", r.choice(["c", " ", "note"])))
        else:
            kids.append(("pi", r.choice(["pi", "a"]), r.choice(["d", "", "x y"])))
        last_text = k in ("ws", "txt")
    return kids


def gen_elem(r, depth, maxdepth, width, xmlspace=False):
    attrs = []
    if xmlspace and r.chance(1, 5):
        attrs.append(("xml:space", r.choice(["preserve", "default"])))
    return ("elem", r.choice(ELEM_NAMES), gen_kids(r, depth, maxdepth, width), attrs)


def gen_doc(r, maxdepth=3, width=5):
    root = ("elem", r.choice(ELEM_NAMES), gen_kids(r, 1, maxdepth, width), [])
    top = []
    if r.chance(1, 4):
        top.append(("comment", "top"))
    top.append(root)
    if r.chance(1, 5):
        top.append(("pi", "end", "z"))
    return ("elem", None, top, [])


def esc_text(s):
    return s.replace("&", "&amp;").replace("<", "&lt;").replace(">", "&gt;").replace("\r", "&#13;")


def qn(name, prefixes):
    u, l = name
    p = prefixes[u]
    return (p + ":" + l) if p else l


def render_node(n, out, number, counter):
    k = n[0]
    if k == "elem":
        name = qn(n[1], DOC_PREFIX)
        counter[0] += 1
        out.append("<" + name)
        if number:
            out.append(' n="%d"' % counter[0])
        if counter[0] == 1:
            out.append(' xmlns:p="%s" xmlns:r="%s"' % (U1, U2))
        for a, v in n[3]:
            out.append(' %s="%s"' % (a, v))
        if n[2]:
            out.append(">")
            for c in n[2]:
                render_node(c, out, number, counter)
            out.append("</" + name + ">")
        else:
            out.append("/>")
    elif k == "text":
        out.append(esc_text(n[1]))
    elif k == "comment":
        out.append("<!--" + n[1] + "-->")
    else:
        out.append("<?" + n[1] + (" " + n[2] if n[2] else "") + "?>")


# an internal DTD subset that declares *element content* for some names: a non-validating Xerces then reports
# whitespace inside those elements through ignorableWhitespace(), which the source tree stores through a different
# path (createTextIWSNode) — still text nodes of the data model, still subject to xsl:strip-space
DTD_DECLS = ('<!ELEMENT a (b|c)*> <!ELEMENT p:a (b|c)*> <!ELEMENT c (a)*> <!ELEMENT r:a (a|b|c|d)*> '
             '<!ELEMENT b ANY> <!ELEMENT d (#PCDATA|a|b)*>')


ID_DECLS = " ".join('<!ATTLIST %s id ID #IMPLIED>' % q for q in ["a", "b", "c", "d", "p:a", "p:b", "r:a"])
ID_TOKENS = ["x", "yz", "y", "xy", "xyz", "yzx", "x_y", "yx"]


def add_ids(r, doc):
    """give some elements an id attribute (declared ID by the DTD of render_doc(dtd="ids")); the tokens are strings the
    document's text nodes (and their concatenations once whitespace is stripped) spell"""
    pool = r.shuffle(ID_TOKENS)

    def go(n):
        if n[0] != "elem":
            return n
        attrs = list(n[3])
        if n[1] is not None and pool and r.chance(2, 3):
            attrs.append(("id", pool.pop()))
        return ("elem", n[1], [go(c) for c in n[2]], attrs)
    return go(doc)


def render_doc(doc, number=True, dtd=False):
    out = ['<?xml version="1.0" encoding="UTF-8"?>']
    if dtd:
        root = [c for c in doc[2] if c[0] == "elem"][0]
        out.append("<!DOCTYPE %s [ %s ]>" % (qn(root[1], DOC_PREFIX), ID_DECLS if dtd == "ids" else DTD_DECLS))
    counter = [0]
    for c in doc[2]:
        render_node(c, out, number, counter)
    out.append("\n")
    return "".join(out)


def hex_units(s):
    if not s:
        return "-"
    b = s.encode("utf-16-be")
    return b.hex()


XMLNS = "http://www.w3.org/XML/1998/namespace"


def doc_tokens(doc, number=True, implicit_xml=True):
    out = []
    counter = [0]

    def go(n):
        k = n[0]
        if k == "elem":
            out.append("(")
            sp = [v for a, v in n[3] if a == "xml:space"]
            out.append("#" if n[1] is None else ("%s|%s" % n[1]) + ("" if not sp else "|p" if sp[-1] == "preserve" else "|d"))
            if n[1] is not None:
                # the attributes render_doc writes: n="<element number>" first, then the element's own
                counter[0] += 1
                if counter[0] == 1:
                    # namespace declarations of the document element (render_node) and the implicit xml one — which only
                    # the XalanSourceTree representation has (the Xerces-DOM wrapper exposes declared prefixes only)
                    if implicit_xml:
                        out.append("%xml=" + hex_units(XMLNS))
                    out.append("%p=" + hex_units(U1))
                    out.append("%r=" + hex_units(U2))
                for a, v in n[3]:
                    if a.startswith("xmlns:"):
                        out.append("%%%s=%s" % (a[6:], hex_units(v)))
                if number:
                    out.append("@|n=" + hex_units(str(counter[0])))
                for a, v in n[3]:
                    if a.startswith("xmlns:"):
                        continue
                    out.append("@%s|%s=%s" % ((XMLNS, "space", hex_units(v)) if a == "xml:space" else ("", a, hex_units(v))))
            for c in n[2]:
                go(c)
            out.append(")")
        elif k == "text":
            out.append("T" + hex_units(n[1]))
        elif k == "comment":
            out.append("C" + hex_units(n[1]))
        else:
            out.append("P%s|%s" % (n[1], hex_units(n[2])))
    go(doc)
    return out


def is_ws(s):
    return all(c in " \t\r\n" for c in s)


def text_nodes(doc):
    """[(parent name, data, xml:space in force)] in document order"""
    res = []

    def go(n, space):
        for a, v in n[3]:
            if a == "xml:space":
                space = v
        for c in n[2]:
            if c[0] == "text":
                res.append((n[1], c[1], space))
            elif c[0] == "elem":
                go(c, space)
    go(doc, "default")
    return res


# ------------------------------------------------------------------------------------------------------
# declarations:  sheet = {"decls": [items], "imports": [sheet]}   item = ("decl", strip?, [nametest]) | ("include", sheet-without-imports)
# nametest = ("*",) | ("ns", uri) | ("q", uri, local)


def gen_nametest(r):
    k = r.weighted([("*", 5), ("ns", 4), ("q", 8)])
    if k == "*":
        return ("*",)
    if k == "ns":
        return ("ns", r.choice([U1, U2]))
    u, l = r.choice(ELEM_NAMES)
    return ("q", u, l)


def gen_decl(r):
    return ("decl", r.chance(3, 5), [gen_nametest(r) for _ in range(r.weighted([(1, 5), (2, 3), (3, 1)]))])


def gen_sheet(r, depth=0, allow_include=True):
    items = []
    for _ in range(r.weighted([(0, 1), (1, 4), (2, 4), (3, 2), (4, 1)]) if depth == 0 else r.range(0, 2)):
        if allow_include and r.chance(1, 8):
            items.append(("include", gen_sheet(r, 9, False)))
        else:
            items.append(gen_decl(r))
    imports = []
    if depth < 2 and allow_include:
        for _ in range(r.weighted([(0, 5), (1, 3), (2, 2)]) if depth == 0 else r.weighted([(0, 3), (1, 1)])):
            imports.append(gen_sheet(r, depth + 1))
    return {"items": items, "imports": imports}


def flat_decls(sheet):
    """testers of one module in document order, includes spliced in: [(strip?, nametest)]"""
    res = []
    for it in sheet["items"]:
        if it[0] == "decl":
            for nt in it[2]:
                res.append((it[1], nt))
        else:
            res.extend(flat_decls(it[1]))
    return res


def nt_token(nt):
    if nt[0] == "*":
        return "*"
    if nt[0] == "ns":
        return nt[1] + "|*"
    return "%s|%s" % (nt[1], nt[2])


def sheet_tokens(sheet):
    out = ["["]
    for s, nt in flat_decls(sheet):
        out.append(("s:" if s else "p:") + nt_token(nt))
    for imp in sheet["imports"]:
        out.extend(sheet_tokens(imp))
    out.append("]")
    return out


def nt_xsl(nt):
    if nt[0] == "*":
        return "*"
    if nt[0] == "ns":
        return XSL_PREFIX[nt[1]] + ":*"
    return qn((nt[1], nt[2]), XSL_PREFIX)


def nt_matches(nt, name):
    if nt[0] == "*":
        return True
    if nt[0] == "ns":
        return name[0] == nt[1]
    return name == (nt[1], nt[2])


def nt_priority(nt):
    return {"*": -0.5, "ns": -0.25, "q": 0.0}[nt[0]]


def postorder(sheet):
    """XSLT 2.6.2: modules in increasing import precedence"""
    res = []
    for imp in sheet["imports"]:
        res.extend(postorder(imp))
    res.append(sheet)
    return res


def spec_strips(sheet, parent):
    """XSLT 3.4 (+ the recovery 'last one wins'): does a whitespace-only text child of `parent` get stripped?"""
    if parent is None:
        return False
    best = None
    for prec, mod in enumerate(postorder(sheet)):
        for pos, (s, nt) in enumerate(flat_decls(mod)):
            if nt_matches(nt, parent):
                key = (prec, nt_priority(nt), pos)
                if best is None or key > best[0]:
                    best = (key, s)
    return bool(best and best[1])


def spec_bits(sheet, doc, honour_xml_space=True):
    bits = []
    for parent, data, space in text_nodes(doc):
        st = is_ws(data) and spec_strips(sheet, parent)
        if honour_xml_space and space == "preserve":
            st = False
        bits.append(st)
    return bits


def strip_doc(sheet, doc, honour_xml_space=True):
    def go(n, space):
        for a, v in n[3]:
            if a == "xml:space":
                space = v
        kids = []
        for c in n[2]:
            if c[0] == "text":
                if is_ws(c[1]) and spec_strips(sheet, n[1]) and not (honour_xml_space and space == "preserve"):
                    continue
                kids.append(c)
            elif c[0] == "elem":
                kids.append(go(c, space))
            else:
                kids.append(c)
        return ("elem", n[1], kids, n[3])
    return go(doc, "default")


def has_decls(sheet):
    return any(flat_decls(m) for m in postorder(sheet))


# ------------------------------------------------------------------------------------------------------
# stylesheet text

EXT_NS = ('xmlns:xalan="http://xml.apache.org/xalan" xmlns:set="http://exslt.org/sets" xmlns:str="http://exslt.org/strings" '
          'xmlns:math="http://exslt.org/math" xmlns:dyn="http://exslt.org/dynamic" xmlns:exsl="http://exslt.org/common"')
HEAD = ('<xsl:stylesheet version="1.0" xmlns:xsl="%s" xmlns:x1="%s" xmlns:x2="%s" xmlns:p="%s" xmlns:r="%s" %s'
        ' exclude-result-prefixes="x1 x2 p r xalan set str math dyn exsl">\n' % (XSLNS, U1, U2, U1, U2, EXT_NS))


def render_items(items, files, base, with_decls, counter):
    out = []
    for it in items:
        if it[0] == "decl":
            if with_decls:
                # tokens separated by every kind of XML whitespace (character references survive attribute normalisation)
                seps = [" ", "  ", "&#10;", "&#9; ", "&#13;&#10;"]
                toks = [nt_xsl(nt) for nt in it[2]]
                val = toks[0] + "".join(seps[(len(toks[i]) + i + len(toks)) % len(seps)] + toks[i + 1] for i in range(len(toks) - 1))
                if len(toks) % 2 == 0:
                    val = " " + val + "&#10;"
                out.append('<xsl:%s elements="%s"/>\n' % ("strip-space" if it[1] else "preserve-space", val))
        else:
            counter[0] += 1
            fn = "%s_m%d.xsl" % (base, counter[0])
            files[fn] = HEAD + "".join(render_items(it[1]["items"], files, base, with_decls, counter)) + "</xsl:stylesheet>\n"
            out.append('<xsl:include href="%s"/>\n' % fn)
    return out


def render_sheet(sheet, base, body, with_decls=True):
    """returns {filename: text}; the main module is <base>.xsl.  Without the declarations the imported/included
    modules would be empty (they hold nothing but declarations), so that side is the one main module."""
    if not with_decls:
        return {base + ".xsl": HEAD + body + "</xsl:stylesheet>\n"}
    files = {}
    counter = [0]

    def module(sh, fn, body):
        imps = []
        for imp in sh["imports"]:
            counter[0] += 1
            f2 = "%s_m%d.xsl" % (base, counter[0])
            module(imp, f2, "")
            imps.append('<xsl:import href="%s"/>\n' % f2)
        files[fn] = HEAD + "".join(imps) + "".join(render_items(sh["items"], files, base, with_decls, counter)) + body + "</xsl:stylesheet>\n"
    module(sheet, base + ".xsl", body)
    return files


# ------------------------------------------------------------------------------------------------------
# observation paths: stylesheet bodies.  (name, body)

OUT_XML = '<xsl:output method="xml" indent="no" encoding="UTF-8"/>\n'
OUT_TEXT = '<xsl:output method="text" encoding="UTF-8"/>\n'

BODIES = [
    ("identity", OUT_XML +
     '<xsl:template match="@*|node()"><xsl:copy><xsl:apply-templates select="@*|node()"/></xsl:copy></xsl:template>\n'),
    ("copy-of-root", OUT_XML + '<xsl:template match="/"><o><xsl:copy-of select="."/></o></xsl:template>\n'),
    ("copy-of-children", OUT_XML +
     '<xsl:template match="/"><o><xsl:for-each select="//*"><e n="{@n}"><xsl:copy-of select="node()"/></e></xsl:for-each></o></xsl:template>\n'),
    ("copy-of-text", OUT_XML +
     '<xsl:template match="/"><o><xsl:for-each select="//*"><e n="{@n}">[<xsl:copy-of select="text()"/>]</e></xsl:for-each>'
     '<all><xsl:copy-of select="//text()"/></all></o></xsl:template>\n'),
    ("builtin-text-pos", OUT_XML +
     '<xsl:template match="/"><o><xsl:apply-templates/></o></xsl:template>\n'
     '<xsl:template match="text()">[<xsl:value-of select="position()"/>/<xsl:value-of select="last()"/>:<xsl:value-of select="."/>]</xsl:template>\n'),
    ("apply-default-pos", OUT_XML +
     '<xsl:template match="/"><o><xsl:apply-templates/></o></xsl:template>\n'
     '<xsl:template match="*"><e n="{@n}" p="{position()}" l="{last()}"><xsl:apply-templates/></e></xsl:template>\n'
     '<xsl:template match="comment()|processing-instruction()"><k p="{position()}" l="{last()}"/></xsl:template>\n'
     '<xsl:template match="text()"><t p="{position()}" l="{last()}"><xsl:value-of select="."/></t></xsl:template>\n'),
    ("counts", OUT_XML +
     '<xsl:template match="/"><o><xsl:for-each select="//*"><e n="{@n}" c="{count(node())}" t="{count(text())}" '
     'd="{count(descendant::node())}" dt="{count(descendant::text())}" fs="{count(following-sibling::node())}" '
     'ps="{count(preceding-sibling::node())}" f="{count(following::node())}" p="{count(preceding::node())}" '
     'ft="{count(following::text())}" pt="{count(preceding::text())}" dos="{count(descendant-or-self::node())}"/>'
     '</xsl:for-each></o></xsl:template>\n'),
    ("string-values", OUT_XML +
     '<xsl:template match="/"><o sl="{string-length(/)}"><xsl:for-each select="//*"><e n="{@n}" s="{string-length(.)}" '
     'ns="{normalize-space(.)}" c="{contains(., \' \')}" sw="{starts-with(., \' \')}"><xsl:value-of select="."/></e>'
     '</xsl:for-each></o></xsl:template>\n'),
    ("node-walk", OUT_XML +
     '<xsl:template match="/"><o><xsl:for-each select="//node()"><n k="{name()}" t="{boolean(self::text())}" pos="{position()}" '
     'last="{last()}" first="{generate-id(../node()[1]) = generate-id(.)}" lastk="{generate-id(../node()[last()]) = generate-id(.)}" '
     'nx="{name(following-sibling::node()[1])}" nxt="{boolean(following-sibling::node()[1][self::text()])}" '
     'pv="{name(preceding-sibling::node()[1])}" pvt="{boolean(preceding-sibling::node()[1][self::text()])}" '
     'idx="{count(preceding-sibling::node()) + 1}"/></xsl:for-each></o></xsl:template>\n'),
    ("child-pos", OUT_XML +
     '<xsl:template match="/"><o><xsl:for-each select="//*"><e n="{@n}"><xsl:for-each select="node()">'
     '<c p="{position()}" l="{last()}" t="{boolean(self::text())}" v="{.}"/></xsl:for-each>'
     '<f><xsl:value-of select="node()[1]"/></f><s><xsl:value-of select="node()[2]"/></s><l><xsl:value-of select="node()[last()]"/></l>'
     '<t1><xsl:value-of select="text()[1]"/></t1><tl><xsl:value-of select="text()[last()]"/></tl>'
     '</e></xsl:for-each></o></xsl:template>\n'),
    ("keys", OUT_XML +
     '<xsl:key name="k" match="text()" use="local-name(..)"/>\n'
     '<xsl:key name="e" match="*" use="."/>\n'
     '<xsl:key name="kn" match="node()" use="count(preceding-sibling::node())"/>\n'
     '<xsl:key name="kt" match="*" use="count(text())"/>\n'
     '<xsl:template match="/"><o a="{count(key(\'k\',\'a\'))}" b="{count(key(\'k\',\'b\'))}" c="{count(key(\'k\',\'c\'))}" '
     'd="{count(key(\'k\',\'d\'))}" k0="{count(key(\'kn\',0))}" k1="{count(key(\'kn\',1))}" k2="{count(key(\'kn\',2))}" '
     'k3="{count(key(\'kn\',3))}" t0="{count(key(\'kt\',0))}" t1="{count(key(\'kt\',1))}" t2="{count(key(\'kt\',2))}">'
     '<va><xsl:for-each select="key(\'k\',\'a\')">[<xsl:value-of select="."/>]</xsl:for-each></va>'
     '<xsl:for-each select="//*"><e n="{@n}" same="{count(key(\'e\', string(.)))}"/></xsl:for-each></o></xsl:template>\n'),
    ("number", OUT_XML +
     '<xsl:template match="/"><o><xsl:for-each select="//node()"><n>'
     '<xsl:number level="any" count="text()"/>|<xsl:number level="any" count="node()"/>|<xsl:number count="node()"/>|'
     '<xsl:number level="multiple" count="node()" format="1.1"/>|<xsl:number count="text()"/>'
     '</n></xsl:for-each></o></xsl:template>\n'),
    # default count (= nodes of the same kind/name); not on processing instructions: the default count pattern the
    # library builds for a PI is `processing-instruction(target)` without quotes and does not compile (a C17 matter)
    ("number-default", OUT_XML +
     '<xsl:template match="/"><o><xsl:for-each select="//*|//text()|//comment()"><n>'
     '<xsl:number level="any"/>|<xsl:number/>|<xsl:number level="multiple"/>'
     '</n></xsl:for-each></o></xsl:template>\n'),
    # level="any" with from=: before /repo f84b15b the backwards walk of ElemNumber::getPreviousNode tested `from` only
    # when it climbed from a first child to its parent, so a physically present stripped text node changed which
    # elements got tested (former known finding C13-number-any-from); kept as its own body
    ("number-any-from", OUT_XML +
     '<xsl:template match="/"><o><xsl:for-each select="//text()|//*"><n>'
     '<xsl:number level="any" count="text()" from="a"/>|<xsl:number level="any" count="node()" from="b"/>'
     '</n></xsl:for-each></o></xsl:template>\n'),
    ("number-single-union", OUT_XML +
     '<xsl:template match="/"><o><xsl:for-each select="//text()|//*"><n>'
     '<xsl:number level="single" count="text()|*"/>|<xsl:number level="multiple" count="text()|*|comment()" format="1.a"/>'
     '</n></xsl:for-each></o></xsl:template>\n'),
    ("patterns-pos", OUT_XML +
     '<xsl:template match="/"><o><xsl:apply-templates select="//node()"/></o></xsl:template>\n'
     '<xsl:template match="node()" priority="-9"><other/></xsl:template>\n'
     '<xsl:template match="node()[1]" priority="1"><first n="{@n}" t="{boolean(self::text())}"/></xsl:template>\n'
     '<xsl:template match="node()[last()]" priority="2"><last n="{@n}" t="{boolean(self::text())}"/></xsl:template>\n'
     '<xsl:template match="text()[2]" priority="3"><text2/></xsl:template>\n'
     '<xsl:template match="*[not(text())]" priority="4"><notext n="{@n}"/></xsl:template>\n'
     '<xsl:template match="*[node()[1][self::text()]]" priority="5"><textfirst n="{@n}"/></xsl:template>\n'),
    ("patterns-sibling", OUT_XML +
     '<xsl:template match="/"><o><xsl:apply-templates select="//*"/></o></xsl:template>\n'
     '<xsl:template match="*" priority="-9"><other n="{@n}"/></xsl:template>\n'
     '<xsl:template match="*[preceding-sibling::node()[1][self::text()]]" priority="1"><aftertext n="{@n}"/></xsl:template>\n'
     '<xsl:template match="*[count(node()) = 1]" priority="2"><single n="{@n}"/></xsl:template>\n'
     '<xsl:template match="*[not(node())]" priority="3"><empty n="{@n}"/></xsl:template>\n'
     '<xsl:template match="*[string-length(.) = 0]" priority="4"><nostring n="{@n}"/></xsl:template>\n'),
    ("sort", OUT_XML +
     '<xsl:template match="/"><o><xsl:for-each select="//*"><xsl:sort select="."/><xsl:sort select="count(node())" data-type="number"/>'
     '<e n="{@n}"/></xsl:for-each><xsl:for-each select="//*"><xsl:sort select="count(text())" data-type="number" order="descending"/>'
     '<f n="{@n}"/></xsl:for-each></o></xsl:template>\n'),
    ("select-text", OUT_XML +
     '<xsl:template match="/"><o><xsl:for-each select="//*"><e n="{@n}"><a><xsl:value-of select="text()"/></a>'
     '<b><xsl:apply-templates select="text()"/></b><c><xsl:value-of select="node()[1]"/></c>'
     '<d><xsl:if test="text()">T</xsl:if><xsl:if test="node()">N</xsl:if></d></e></xsl:for-each></o></xsl:template>\n'
     '<xsl:template match="text()"><t><xsl:copy/></t></xsl:template>\n'),
    ("compare", OUT_XML +
     '<xsl:template match="/"><o><xsl:for-each select="//*"><e n="{@n}" eq="{. = following-sibling::*}" ne="{. != ../*}" '
     'sp="{text() = \' \'}" nl="{text() = \'&#10;\'}" b="{boolean(text())}" e="{. = \'\'}" tt="{text() = ../text()}" '
     'lt="{count(node()) &lt; count(../node())}" sum="{count(node()) + count(text()) * 10}"/></xsl:for-each></o></xsl:template>\n'),
    ("variables", OUT_XML +
     '<xsl:variable name="all" select="//text()"/>\n'
     '<xsl:template match="/"><xsl:variable name="r"><xsl:copy-of select="/*"/></xsl:variable>'
     '<o c="{count($all)}" s="{string-length($r)}" f="{$all[1]}" l="{$all[last()]}"><xsl:copy-of select="$r"/>'
     '<u c="{count(//text()|//comment())}" f="{name((//node())[2])}" l="{boolean((//node())[last()][self::text()])}"/>'
     '</o></xsl:template>\n'),
    ("text-context", OUT_XML +
     '<xsl:template match="/"><o><xsl:for-each select="//text()"><t p="{name(..)}" n="{../@n}" i="{count(preceding-sibling::node())}" '
     'j="{count(following-sibling::node())}" a="{count(ancestor::node())}" pt="{count(preceding::text())}" '
     'v="{.}"/></xsl:for-each></o></xsl:template>\n'),
    ("text-method", OUT_TEXT +
     '<xsl:template match="*">&lt;<xsl:value-of select="name()"/>&gt;<xsl:apply-templates/>&lt;/&gt;</xsl:template>\n'),
    ("modes-select", OUT_XML +
     '<xsl:template match="/"><o><xsl:apply-templates select="//*" mode="m"/></o></xsl:template>\n'
     '<xsl:template match="*" mode="m"><e n="{@n}"><xsl:apply-templates select="node()" mode="k"/></e></xsl:template>\n'
     '<xsl:template match="node()" mode="k"><k p="{position()}" l="{last()}"/></xsl:template>\n'
     '<xsl:template match="text()" mode="k" priority="2"><t p="{position()}" l="{last()}"><xsl:value-of select="."/></t></xsl:template>\n'),
    # a second source document loaded with document(): stripping applies to it as well (XSLT 3.4 speaks of source
    # documents); @DOC@ is replaced by the case's own document file (D on the declared side, D' on the other)
    ("document-fn", OUT_XML +
     '<xsl:key name="k" match="text()" use="local-name(..)"/>\n'
     '<xsl:template match="/"><o><xsl:for-each select="document(\'@DOC@\')//*"><e n="{@n}" c="{count(node())}" t="{count(text())}" '
     's="{string-length(.)}" k="{count(key(\'k\', local-name()))}" f="{count(following::text())}"/></xsl:for-each>'
     '<xsl:copy-of select="document(\'@DOC@\')/*/node()"/><xsl:apply-templates select="document(\'@DOC@\')/*" mode="d"/>'
     '</o></xsl:template>\n'
     '<xsl:template match="*" mode="d"><d p="{position()}" l="{last()}"><xsl:apply-templates mode="d"/></d></xsl:template>\n'
     '<xsl:template match="text()" mode="d"><t p="{position()}" l="{last()}"><xsl:value-of select="."/></t></xsl:template>\n'),
    # the namespace axis is not in the Lean model (the library answers it with the xmlns attribute nodes of the
    # ancestors plus a static `xml` node); observed differentially only
    ("namespace-axis", OUT_XML +
     '<xsl:template match="/"><o><xsl:for-each select="//*"><e n="{@n}" c="{count(namespace::*)}" '
     'f="{count(namespace::*[2]/following::node())}" ft="{count(namespace::*[2]/following::text())}" '
     'u="{count(namespace::* | @* | node())}" p="{count(namespace::*[2]/../node())}" '
     's="{string-length(namespace::*[2]/..)}"><xsl:for-each select="namespace::*">'
     '<xsl:value-of select="name()"/>;</xsl:for-each></e></xsl:for-each></o></xsl:template>\n'),
    # variables holding node-sets and result tree fragments, used after the fact
    ("variables-2", OUT_XML +
     '<xsl:template match="/"><o><xsl:for-each select="//*"><xsl:variable name="k" select="node()"/>'
     '<xsl:variable name="t" select="text()"/><xsl:variable name="r"><xsl:copy-of select="node()"/></xsl:variable>'
     '<xsl:variable name="s"><xsl:value-of select="."/></xsl:variable>'
     '<e n="{@n}" k="{count($k)}" t="{count($t)}" k1="{name($k[1])}" kl="{boolean($k[last()][self::text()])}" '
     'r="{string-length($r)}" s="{string-length($s)}" eq="{$r = $s}" f="{count($k[1]/following-sibling::node())}">'
     '<xsl:for-each select="$k"><xsl:sort select="." order="descending"/><c p="{position()}" l="{last()}" v="{.}"/></xsl:for-each>'
     '<xsl:copy-of select="$r"/></e></xsl:for-each></o></xsl:template>\n'),
    # xsl:copy / xsl:for-each over node() of elements with stripped children; template match predicates with position
    ("copy-foreach-node", OUT_XML +
     '<xsl:template match="/"><o><xsl:apply-templates select="//*" mode="c"/></o></xsl:template>\n'
     '<xsl:template match="*" mode="c"><xsl:copy><xsl:for-each select="node()"><xsl:copy/>'
     '<i p="{position()}" l="{last()}"/></xsl:for-each><xsl:apply-templates select="node()" mode="p"/></xsl:copy></xsl:template>\n'
     '<xsl:template match="node()" mode="p"><n p="{position()}" l="{last()}"/></xsl:template>\n'
     '<xsl:template match="node()[1]" mode="p" priority="1"><first p="{position()}" l="{last()}"/></xsl:template>\n'
     '<xsl:template match="node()[position() = last()]" mode="p" priority="2"><lastn p="{position()}" l="{last()}"/></xsl:template>\n'
     '<xsl:template match="*/text()[2]" mode="p" priority="3"><t2/></xsl:template>\n'),
    # key() with node-set arguments (one lookup per member with the member's string value), key tables whose use
    # expression is a node-set / a string built from stripped content
    ("key-nodeset-arg", OUT_XML +
     '<xsl:key name="sv" match="*" use="."/>\n<xsl:key name="ch" match="*" use="*"/>\n'
     '<xsl:key name="tx" match="*" use="text()"/>\n<xsl:key name="cc" match="*" use="concat(., \'|\', count(node()))"/>\n'
     '<xsl:key name="nd" match="node()" use=".."/>\n'
     '<xsl:template match="/"><o all="{count(key(\'sv\', //*))}" allt="{count(key(\'tx\', //*))}"><xsl:for-each select="//*">'
     '<e n="{@n}" c1="{count(key(\'sv\', *))}" c2="{count(key(\'sv\', . | following-sibling::*))}" c3="{count(key(\'sv\', ..))}" '
     'c4="{count(key(\'ch\', *))}" c5="{count(key(\'ch\', . | *))}" c6="{count(key(\'tx\', node()))}" '
     'c7="{count(key(\'cc\', concat(., \'|\', count(node()))))}" c8="{count(key(\'sv\', string(.)))}" '
     'c9="{count(key(\'nd\', . | *))}" f="{key(\'sv\', * | text())[1]/@n}"/></xsl:for-each></o></xsl:template>\n'),
    # id(): a node-set argument is the whitespace-separated list of the members' string values (documents of this body
    # get ID attributes and a DTD declaring them)
    ("id-fn", OUT_XML +
     '<xsl:template match="/"><o><xsl:for-each select="//*"><e n="{@n}" i="{count(id(.))}" j="{count(id(*))}" '
     'k="{count(id(node()))}" t="{count(id(text()))}" f="{id(.)[1]/@n}" s="{count(id(string(.)))}" '
     'u="{count(id(. | following-sibling::*))}"/></xsl:for-each></o></xsl:template>\n'),
    # extension functions run with the execution context the stylesheet context hands them (extFunction(*this, …)): what
    # they observe — nodes, string values, dynamically evaluated paths — must be the stripped view as well
    ("ext-sets", OUT_XML +
     '<xsl:template match="/"><o><xsl:for-each select="//*"><e n="{@n}" xd="{count(xalan:distinct(*))}" '
     'xdn="{count(xalan:distinct(node()))}" sd="{count(set:distinct(*))}" sdn="{count(set:distinct(node()))}" '
     'sdf="{count(set:difference(node(), *))}" si="{count(set:intersection(node(), text()))}" '
     'hs="{set:has-same-node(node(), text())}" sl="{count(set:leading(node(), *[1]))}" st="{count(set:trailing(node(), *[1]))}" '
     'sc="{string-length(str:concat(*))}" scn="{string-length(str:concat(node()))}" scv="{str:concat(*)}" '
     'mn="{math:min(*)}" mx="{count(math:highest(*))}" ml="{count(math:lowest(node()))}" xdv="{xalan:distinct(*)[last()]/@n}"/>'
     '</xsl:for-each></o></xsl:template>\n'),
    ("ext-evaluate", OUT_XML +
     '<xsl:template match="/"><o><xsl:for-each select="//*"><e n="{@n}" ev="{count(xalan:evaluate(\'node()\'))}" '
     'evt="{count(xalan:evaluate(\'text()\'))}" evs="{string-length(xalan:evaluate(\'string(.)\'))}" '
     'evd="{xalan:evaluate(\'count(descendant::node())\')}" evf="{count(xalan:evaluate(\'following-sibling::node()\'))}" '
     'evp="{xalan:evaluate(\'count(node()[1][self::text()])\')}" dv="{count(dyn:evaluate(\'child::node()\'))}" '
     'dvt="{dyn:evaluate(\'count(descendant::text())\')}" dvs="{dyn:evaluate(\'string-length(.)\')}" '
     'dvl="{dyn:evaluate(\'count(node()[last()][self::text()])\')}"/></xsl:for-each></o></xsl:template>\n'),
    ("ext-nodeset", OUT_XML +
     '<xsl:variable name="rtf"><xsl:copy-of select="/*"/></xsl:variable>\n'
     '<xsl:template match="/"><o a="{count(xalan:nodeset($rtf)/*/node())}" b="{count(exsl:node-set($rtf)//text())}" '
     'c="{string-length(xalan:nodeset($rtf))}" d="{count(xalan:nodeset($rtf)//node())}"><xsl:for-each select="//*">'
     '<xsl:variable name="f"><xsl:copy-of select="."/></xsl:variable><e n="{@n}" k="{count(exsl:node-set($f)/*/node())}" '
     't="{count(xalan:nodeset($f)/*/text())}" s="{string-length(exsl:node-set($f)/*)}" '
     'x="{count(xalan:distinct(exsl:node-set($f)/*/node()))}"/></xsl:for-each></o></xsl:template>\n'),
    ("copy-shallow", OUT_XML +
     '<xsl:template match="/"><o><xsl:for-each select="//node()"><xsl:copy/>|</xsl:for-each></o></xsl:template>\n'),
]

# not in the rotation: the witness of known finding C13-rtf-nodeset-stripped (corpus only)
EXTRA_BODIES = [
    ("rtf-literal-ws", OUT_XML +
     '<xsl:variable name="f"><a><xsl:text> </xsl:text><b/></a></xsl:variable>\n'
     '<xsl:template match="/"><o k="{count(exsl:node-set($f)/a/node())}" s="{string-length(exsl:node-set($f)/a)}" '
     'r="{string-length($f)}"/></xsl:template>\n'),
]

BODY_BY_NAME = dict(BODIES + EXTRA_BODIES)


# ------------------------------------------------------------------------------------------------------
# expressions of the modelled fragment
# ast: ("self",) ("root",) ("step", base, axis, test) ("stepP", base, axis, test, p) ("stepPP", base, axis, test, p, q)
#      ("position",) ("last",) ("count", e) ("string", e) ("strlen", e) ("local-name", e) ("boolean", e) ("not", e)
#      ("num", n) ("lit", s) ("eq", a, b) ("lt", a, b) ("plus", a, b) ("minus", a, b) ("and", a, b) ("or", a, b)
#      ("concat", a, b) ("contains", a, b)
# test: ("any",) ("text",) ("node",) ("comment",) ("pi",) ("name", uri, local) ("nsw", uri)

AXES = ["child", "descendant", "descendant-or-self", "following-sibling", "preceding-sibling", "self", "parent",
        "ancestor", "ancestor-or-self"]


def gen_test(r):
    k = r.weighted([("node", 8), ("text", 8), ("any", 4), ("name", 4), ("comment", 1), ("pi", 1), ("nsw", 1)])
    if k == "name":
        u, l = r.choice(ELEM_NAMES)
        return ("name", u, l)
    if k == "nsw":
        return ("nsw", r.choice([U1, U2]))
    return (k,)


def gen_ns(r, d, inpred):
    """node-set valued"""
    if _NSVARS[0] > 0 and r.chance(1, 3):
        return ("var", r.below(_NSVARS[0]))
    if d <= 0:
        return r.choice([("self",), ("root",)]) if inpred else ("root",)
    if d >= 1 and r.chance(1, 8):
        return ("union", gen_ns(r, d - 1, inpred), gen_ns(r, d - 1, inpred))
    if d >= 1 and r.chance(1, 8):
        return ("filter", gen_ns(r, d - 1, inpred), gen_pred(r, d - 1))
    base = gen_ns(r, d - 1, inpred) if r.chance(3, 4) else (("self",) if inpred else ("root",))
    ax = r.weighted([("child", 8), ("descendant", 6), ("descendant-or-self", 2), ("following-sibling", 4),
                     ("preceding-sibling", 4), ("self", 1), ("parent", 2), ("ancestor", 1), ("ancestor-or-self", 1),
                     ("following", 3), ("preceding", 3), ("attribute", 3), ("namespace", 2)])
    t = gen_test(r)
    if ax == "attribute":
        t = r.choice([("any",), ("any",), ("node",), ("name", "", "n"), ("name", "", "m"), ("text",)])
    if ax == "namespace":
        t = r.choice([("any",), ("any",), ("node",), ("name", "", "p"), ("name", "", "xml"), ("name", "", "zz")])
    k = r.weighted([("step", 5), ("stepP", 4), ("stepPP", 1)])
    if k == "step" or d < 1:
        return ("step", base, ax, t)
    if k == "stepP":
        return ("stepP", base, ax, t, gen_pred(r, d - 1))
    return ("stepPP", base, ax, t, gen_pred(r, d - 1), gen_pred(r, d - 1))


def gen_pred(r, d):
    k = r.weighted([("numlit", 4), ("last", 3), ("bool", 5), ("numexpr", 2)])
    if k == "numlit":
        return ("num", r.range(1, 3))
    if k == "last":
        return ("last",) if r.chance(2, 3) else ("minus", ("last",), ("num", 1))
    if k == "numexpr":
        return gen_num(r, d, True)
    return gen_bool(r, d, True)


def gen_num(r, d, inpred):
    k = r.weighted([("count", 6), ("strlen", 3), ("pos", 2 if inpred is True else 0), ("last", 2 if inpred is True else 0), ("lit", 1),
                    ("plus", 2), ("minus", 1), ("attr-count", 1)])
    if k == "count":
        return ("count", gen_ns(r, d, inpred))
    if k == "attr-count":
        return ("count", ("step", gen_ns(r, d, inpred), "attribute", ("any",)))
    if k == "strlen":
        return ("strlen", gen_str(r, d, inpred))
    if k == "pos":
        return ("position",)
    if k == "last":
        return ("last",)
    if k == "lit":
        return ("num", r.range(0, 4))
    if d <= 0:
        return ("num", r.range(0, 4))
    return (k, gen_num(r, d - 1, inpred), gen_num(r, d - 1, inpred))


def gen_str(r, d, inpred):
    k = r.weighted([("string-ns", 8), ("local-name", 3), ("lit", 2), ("concat", 2), ("string-num", 1), ("string-bool", 1),
                    ("normalize-space", 2), ("attr-of", 4)])
    if k == "string-ns" or d <= 0:
        return ("string", gen_ns(r, d, inpred))
    if k == "normalize-space":
        return ("normalize-space", gen_str(r, d - 1, inpred))
    if k == "attr-of":
        return ("string", ("step", gen_ns(r, d, inpred), "attribute", ("name", "", r.choice(["n", "n", "n", "m"]))))
    if k == "local-name":
        return ("local-name", gen_ns(r, d, inpred))
    if k == "lit":
        return ("lit", r.choice([" ", "", "x", "\n", "a", "  "]))
    if k == "concat":
        return ("concat", gen_str(r, d - 1, inpred), gen_str(r, d - 1, inpred))
    if k == "string-num":
        return ("string", gen_num(r, d - 1, inpred))
    return ("string", gen_bool(r, d - 1, inpred))


def gen_bool(r, d, inpred):
    k = r.weighted([("boolean-ns", 6), ("not", 3), ("eq-ns-str", 4), ("eq-ns-ns", 2), ("eq-num", 3), ("lt", 2),
                    ("and", 1), ("or", 1), ("contains", 2), ("eq-str", 1), ("eq-bool", 1)])
    if d <= 0 or k == "boolean-ns":
        return ("boolean", gen_ns(r, max(d, 1), inpred))
    if k == "not":
        return ("not", gen_any(r, d - 1, inpred))
    if k == "eq-ns-str":
        a, b = gen_ns(r, d, inpred), gen_str(r, d - 1, inpred)
        return ("eq", a, b) if r.chance(1, 2) else ("eq", b, a)
    if k == "eq-ns-ns":
        return ("eq", gen_ns(r, d, inpred), gen_ns(r, d, inpred))
    if k == "eq-num":
        return ("eq", gen_num(r, d - 1, inpred), gen_num(r, d - 1, inpred))
    if k == "lt":
        return ("lt", gen_num(r, d - 1, inpred), gen_num(r, d - 1, inpred))
    if k in ("and", "or"):
        return (k, gen_any(r, d - 1, inpred), gen_any(r, d - 1, inpred))
    if k == "contains":
        return (r.choice(["contains", "starts-with"]), gen_str(r, d - 1, inpred), gen_str(r, d - 1, inpred))
    if k == "eq-str":
        return ("eq", gen_str(r, d - 1, inpred), gen_str(r, d - 1, inpred))
    return ("eq", gen_bool(r, d - 1, inpred), gen_any(r, d - 1, inpred) if False else gen_bool(r, d - 1, inpred))


def gen_any(r, d, inpred):
    k = r.weighted([("ns", 4), ("num", 2), ("str", 2), ("bool", 2)])
    return {"ns": gen_ns, "num": gen_num, "str": gen_str, "bool": gen_bool}[k](r, max(d, 0), inpred)


def gen_expr(r, d=2):
    return gen_any(r, d, False)


def gen_expr_vars(r, d=2):
    """(let v0 := ns-expr) (let v1 := ns-expr using v0) body using both — node-set variables"""
    n = r.range(1, 2)
    binds = []
    for k in range(n):
        _NSVARS[0] = k
        binds.append(gen_ns(r, r.range(1, d), False))
    _NSVARS[0] = n
    body = gen_any(r, d, False)
    _NSVARS[0] = 0
    e = body
    for b in reversed(binds):
        e = ("let", b, e)
    return e


def test_xpath(t):
    k = t[0]
    if k == "any":
        return "*"
    if k == "text":
        return "text()"
    if k == "node":
        return "node()"
    if k == "comment":
        return "comment()"
    if k == "pi":
        return "processing-instruction()"
    if k == "name":
        return qn((t[1], t[2]), XSL_PREFIX)
    return XSL_PREFIX[t[1]] + ":*"


def test_token(t):
    k = t[0]
    if k == "name":
        return "name:%s|%s" % (t[1], t[2])
    if k == "nsw":
        return "name:%s|*" % t[1]
    return k


def xp_lit(s):
    return "'" + s + "'"


_DEPTH = [0]      # number of enclosing lets while an expression is rendered (lets only occur at the top, see eval_body)
_NSVARS = [0]     # node-set variables in scope while an expression is generated


def expr_xpath(e):
    """variables are de Bruijn indices in the AST (innermost = 0) and named v0, v1, … outermost first"""
    k = e[0]
    if k == "var":
        return "$v%d" % (_DEPTH[0] - 1 - e[1])
    if k == "self":
        return "."
    if k == "root":
        return "/"
    if k in ("step", "stepP", "stepPP"):
        s = "(%s)/%s::%s" % (expr_xpath(e[1]), e[2], test_xpath(e[3]))
        for p in e[4:]:
            s += "[%s]" % expr_xpath(p)
        return s
    if k == "position":
        return "position()"
    if k == "last":
        return "last()"
    if k == "num":
        return str(e[1])
    if k == "lit":
        return xp_lit(e[1])
    if k == "union":
        return "(%s) | (%s)" % (expr_xpath(e[1]), expr_xpath(e[2]))
    if k == "filter":
        return "(%s)[%s]" % (expr_xpath(e[1]), expr_xpath(e[2]))
    un = {"count": "count", "string": "string", "strlen": "string-length", "local-name": "local-name",
          "boolean": "boolean", "not": "not", "normalize-space": "normalize-space"}
    if k in un:
        return "%s(%s)" % (un[k], expr_xpath(e[1]))
    if k in ("concat", "contains", "starts-with"):
        return "%s(%s, %s)" % (k, expr_xpath(e[1]), expr_xpath(e[2]))
    op = {"eq": "=", "lt": "<", "plus": "+", "minus": "-", "and": "and", "or": "or"}[k]
    return "(%s) %s (%s)" % (expr_xpath(e[1]), op, expr_xpath(e[2]))


def expr_tokens(e):
    k = e[0]
    if k in ("self", "root", "position", "last"):
        return [k]
    if k == "num":
        return ["num", str(e[1])]
    if k == "var":
        return ["var", str(e[1])]
    if k == "lit":
        return ["lit", hex_units(e[1])]
    if k in ("step", "stepP", "stepPP"):
        out = [k, e[2], test_token(e[3])] + expr_tokens(e[1])
        for p in e[4:]:
            out += expr_tokens(p)
        return out
    out = [k]
    for a in e[1:]:
        out += expr_tokens(a)
    return out


def xml_attr_escape(s):
    return (s.replace("&", "&amp;").replace("<", "&lt;").replace('"', "&quot;").replace("\n", "&#10;")
            .replace("\t", "&#9;").replace("\r", "&#13;"))


def eval_body(e):
    decls = []
    depth = 0
    while e[0] == "let":
        _DEPTH[0] = depth
        decls.append('<xsl:variable name="v%d" select="%s"/>' % (depth, xml_attr_escape(expr_xpath(e[1]))))
        depth += 1
        e = e[2]
    _DEPTH[0] = depth
    out = (OUT_TEXT + '<xsl:template match="/">' + "".join(decls)
           + '<xsl:value-of select="%s"/></xsl:template>\n' % xml_attr_escape(expr_xpath(e)))
    _DEPTH[0] = 0
    return out


# ------------------------------------------------------------------------------------------------------
# XSLT-level requests modelled in lean/XalanModel/C13/Xslt.lean

PATTERN_TESTS = [("text",), ("node",), ("any",), ("comment",), ("name", "", "a"), ("name", "", "b"), ("name", U1, "a"), ("nsw", U1)]
KEY_LITS = ["", " ", "a", "b", "x", "1", "0", "true", "\n", "yz"]


def gen_pattern(r):
    return r.choice(PATTERN_TESTS)


def gen_key_pattern(r):
    # not node(): as a key match pattern the library also accepts attribute nodes for it (KeyTable tests the
    # attributes of every element too), and attributes are outside the Lean tree model
    return r.choice([t for t in PATTERN_TESTS if t != ("node",)])


def copy_body(e):
    return OUT_TEXT + '<xsl:template match="/"><xsl:copy-of select="%s"/></xsl:template>\n' % xml_attr_escape(expr_xpath(e))


def key_body(m, use, lit):
    sel = "concat(count(key('k', %s)), '|', key('k', %s))" % (xp_lit(lit), xp_lit(lit))
    return (OUT_TEXT + '<xsl:key name="k" match="%s" use="%s"/>\n' % (xml_attr_escape(pat_xpath(m)), xml_attr_escape(expr_xpath(use)))
            + '<xsl:template match="/"><xsl:value-of select="%s"/></xsl:template>\n' % xml_attr_escape(sel))


def keyarg_body(m, use, arg):
    a = expr_xpath(arg)
    sel = "concat(count(key('k', %s)), '|', key('k', %s))" % (a, a)
    return (OUT_TEXT + '<xsl:key name="k" match="%s" use="%s"/>\n' % (xml_attr_escape(pat_xpath(m)), xml_attr_escape(expr_xpath(use)))
            + '<xsl:template match="/"><xsl:value-of select="%s"/></xsl:template>\n' % xml_attr_escape(sel))


def number_body(c, f):
    return (OUT_TEXT + '<xsl:template match="/"><xsl:for-each select="//text()|//*"><xsl:number level="any" count="%s"%s/>|'
            '</xsl:for-each></xsl:template>\n' % (xml_attr_escape(pat_xpath(c)), (' from="%s"' % xml_attr_escape(pat_xpath(f))) if f else ""))


def numbersm_body(c, f, level):
    return (OUT_TEXT + '<xsl:template match="/"><xsl:for-each select="//text()|//*"><xsl:number level="%s" count="%s"%s/>|'
            '</xsl:for-each></xsl:template>\n' % (level, xml_attr_escape(pat_xpath(c)), (' from="%s"' % xml_attr_escape(pat_xpath(f))) if f else ""))


# ------------------------------------------------------------------------------------------------------
# patterns with several steps and predicates:  ("pat", [(test, pred | None), ...])   (steps separated by "/")

STEP_TESTS = [("text",), ("node",), ("any",), ("name", "", "a"), ("name", "", "b"), ("name", "", "c"), ("name", U1, "a"), ("comment",)]


def gen_pattern2(r, allow_node_last=True):
    n = r.weighted([(1, 3), (2, 4), (3, 1)])
    steps = []
    for i in range(n):
        last = i == n - 1
        t = r.choice(STEP_TESTS if last else [t for t in STEP_TESTS if t[0] in ("any", "name")])
        if last and not allow_node_last and t == ("node",):
            t = ("text",)
        p = gen_pred(r, r.range(0, 1)) if r.chance(1, 2) else None
        steps.append((t, p))
    if n == 1 and steps[0][1] is None:
        steps[0] = (steps[0][0], gen_pred(r, 1))
    return ("pat", steps)


def is_pat2(p):
    return p is not None and p[0] == "pat"


def pat_xpath(p):
    if not is_pat2(p):
        return test_xpath(p)
    return "/".join(test_xpath(t) + ("[%s]" % expr_xpath(q) if q is not None else "") for t, q in p[1])


def pat_sel(p):
    """the expression a pattern abbreviates, from the document node: //step1/step2…"""
    e = ("step", ("root",), "descendant-or-self", ("node",))
    for t, q in p[1]:
        e = ("step", e, "child", t) if q is None else ("stepP", e, "child", t, q)
    return e


def pat_tokens(p):
    if p is None:
        return "none"
    if not is_pat2(p):
        return test_token(p)
    return " ".join(expr_tokens(pat_sel(p)))


def add_ns_decls(r, n, top=True):
    """declare (and re-declare, shadowing) an otherwise unused prefix q on some inner elements"""
    if n[0] != "elem":
        return n
    attrs = list(n[3])
    if n[1] is not None and not top and r.chance(1, 4):
        attrs.append(("xmlns:q", r.choice(["urn:q1", "urn:q2"])))
    return ("elem", n[1], [add_ns_decls(r, c, n[1] is None) for c in n[2]], attrs)
