"""C17 generators: documents, count/from patterns (in three renderings), xsl:number instructions, visiting
histories, stylesheets that print each xsl:number result next to its defining count() expression, and the
matching request lines for the Lean driver (xm_c17).  All randomness comes from the Rng passed in."""

NAMES = ["x", "y", "h", "z", "s"]


class Node:
    __slots__ = ("kind", "name", "ns", "attrs", "kids", "parent", "idx")

    def __init__(self, kind, name="", attrs=None, ns=""):
        self.kind = kind      # root | elem | text | comment | pi
        self.name = name      # local name
        self.ns = ns          # namespace key, see NS_KEYS: "" none | "d", "d#2" default namespace (two URIs) |
                              # "p", "p#2", "pre", "pre#2": prefix p / pre bound to the URI of the key (two URIs each)
        self.attrs = attrs or {}
        self.kids = []
        self.parent = None
        self.idx = -1

    def add(self, k):
        k.parent = self
        self.kids.append(k)
        return k


# namespace keys: the prefix (or the default namespace) is the part before '#'; every key has its own URI, so the same
# prefix — one letter long (p) or longer (pre) — is bound to different namespaces in different subtrees of one document.
# The stylesheet binds p -> urn:p and pre -> urn:pre (keys "p", "pre").
NS_KEYS = ["", "p", "d", "p#2", "pre", "pre#2", "d#2"]


def ns_prefix(key):
    return "" if key.startswith("d") else key.split("#")[0]


def ns_uri(key):
    return "urn:" + key.replace("#", "")


def gen_children(r, parent, budget, depth, dns=""):
    """fills parent.kids; returns remaining budget. Never two adjacent text nodes, no whitespace-only text."""
    nk = r.weighted([(0, 2), (1, 3), (2, 4), (3, 3), (4, 2), (6, 1)]) if depth < 5 else 0
    for _ in range(nk):
        if budget <= 0:
            break
        kind = r.weighted([("elem", 12), ("text", 3), ("comment", 1), ("pi", 1)])
        if kind == "text" and parent.kids and parent.kids[-1].kind == "text":
            kind = "elem"
        if kind == "elem":
            e = parent.add(Node("elem", r.weighted([("x", 5), ("y", 3), ("h", 3), ("z", 1), ("s", 3)]),
                                {"k": "1"} if r.chance(1, 4) else {},
                                ns=r.weighted([("p", 3), ("p#2", 3), ("pre", 2), ("pre#2", 2)]) if r.chance(1, 5) else dns))
            budget -= 1
            # a subtree may re-bind the default namespace to the other URI
            sub = dns
            if dns and e.ns == dns and r.chance(1, 6):
                sub = "d#2" if dns == "d" else "d"
                e.ns = sub
            budget = gen_children(r, e, budget, depth + 1, sub)
        elif kind == "text":
            parent.add(Node("text", "t"))
            budget -= 1
        elif kind == "comment":
            parent.add(Node("comment", "c"))
            budget -= 1
        else:
            parent.add(Node("pi", r.choice(["p", "q"])))
            budget -= 1
    return budget


def gen_tree(r, maxnodes):
    root = Node("root")
    if r.chance(1, 6):
        root.add(Node("comment", "c"))
    if r.chance(1, 8):
        root.add(Node("pi", "p"))
    dns = "d" if r.chance(1, 6) else ""
    top = root.add(Node("elem", r.choice(["s", "x", "y"]), {"k": "1"} if r.chance(1, 5) else {}, ns=dns))
    left = gen_children(r, top, maxnodes - 2, 1, dns)
    # make sure the document is not trivially small
    tries = 0
    while len(preorder(root)) < 4 and tries < 5:
        gen_children(r, top, 6, 1, dns)
        tries += 1
    fix_text(root)
    if r.chance(1, 8):
        root.add(Node("comment", "c"))
    number(root)
    return root


def fix_text(n):
    """merge/drop adjacent text nodes that repeated generation may have produced"""
    out = []
    for k in n.kids:
        if k.kind == "text" and out and out[-1].kind == "text":
            continue
        out.append(k)
    n.kids = out
    for k in out:
        fix_text(k)


def preorder(root):
    res = []

    def go(n):
        res.append(n)
        for k in n.kids:
            go(k)
    go(root)
    return res


def number(root):
    for i, n in enumerate(preorder(root)):
        n.idx = i


def tree_from_spec(spec):
    """spec: nested lists  ['x', {attrs}, child, child…] | 't' (text) | '!c' (comment) | '?p' (pi p); root = list of top-level items"""
    root = Node("root")

    def build(parent, s):
        if isinstance(s, str):
            if s.startswith("!"):
                parent.add(Node("comment", s[1:] or "c"))
            elif s.startswith("?"):
                parent.add(Node("pi", s[1:] or "p"))
            else:
                parent.add(Node("text", s))
            return
        name = s[0]
        ns = ""
        if name.startswith("p:"):
            ns, name = "p", name[2:]
        elif name.startswith("{"):
            ns, name = name[1:name.index("}")], name[name.index("}") + 1:]
        rest = s[1:]
        attrs = {}
        if rest and isinstance(rest[0], dict):
            attrs = rest[0]
            rest = rest[1:]
        e = parent.add(Node("elem", name, dict(attrs), ns=ns))
        for c in rest:
            build(e, c)
    for s in spec:
        build(root, s)
    number(root)
    return root


def tree_spec(root):
    def go(n):
        if n.kind == "text":
            return n.name
        if n.kind == "comment":
            return "!" + n.name
        if n.kind == "pi":
            return "?" + n.name
        l = [("{%s}" % n.ns if n.ns else "") + n.name]
        if n.attrs:
            l.append(dict(n.attrs))
        return l + [go(k) for k in n.kids]
    return [go(k) for k in root.kids]


def to_xml(root):
    def go(n, scope):
        """scope = key of the default namespace in scope ('' = none)"""
        if n.kind == "text":
            return n.name
        if n.kind == "comment":
            return "<!--%s-->" % n.name
        if n.kind == "pi":
            return "<?%s d?>" % n.name
        a = "".join(' %s="%s"' % kv for kv in sorted(n.attrs.items()))
        pre = ns_prefix(n.ns)
        if pre:
            a += ' xmlns:%s="%s"' % (pre, ns_uri(n.ns))       # every prefixed element binds its own prefix
        elif n.ns != scope:
            a += ' xmlns="%s"' % (ns_uri(n.ns) if n.ns else "")
            scope = n.ns
        tag = (pre + ":" if pre else "") + n.name
        if not n.kids:
            return "<%s%s/>" % (tag, a)
        return "<%s%s>%s</%s>" % (tag, a, "".join(go(k, scope) for k in n.kids), tag)
    return "".join(go(k, "") for k in root.kids)


def node_class(n):
    """class id of the default count pattern (same node type and expanded name)"""
    if n.kind == "root":
        return 0
    if n.kind == "text":
        return 1
    if n.kind == "comment":
        return 2
    if n.kind == "pi":
        return 10 + ["p", "q"].index(n.name) if n.name in ("p", "q") else 19
    if n.name in NAMES:
        return 20 + NAMES.index(n.name) + 10 * NS_KEYS.index(n.ns)
    # any other element name: e<number> (documents with many distinct names), else one class per spelling
    if n.name[:1] == "e" and n.name[1:].isdigit():
        return 1000 + 10 * int(n.name[1:]) + NS_KEYS.index(n.ns)
    return 100000 + (sum((i + 1) * ord(ch) for i, ch in enumerate(n.name)) % 100000) * 10 + NS_KEYS.index(n.ns)


def ancestors(n):
    res = []
    p = n.parent
    while p is not None:
        res.append(p)
        p = p.parent
    return res


# ------------------------------------------------------------------------------------------------
# patterns: (xslt pattern text, xpath predicate text, python predicate)

def is_elem(n, name=None):
    """name: None = any element; "x" = no-namespace x; "p:x" = x in urn:p (elements in the default namespace urn:d match no name test)"""
    if n.kind != "elem":
        return False
    if name is None:
        return True
    if ":" in name:                 # the stylesheet binds p -> urn:p, pre -> urn:pre: only the keys "p" / "pre" match
        pre, local = name.split(":")
        return n.ns == pre and n.name == local
    return n.ns == "" and n.name == name


def pat_name(a):
    return (a, "self::%s" % a, lambda n: is_elem(n, a))


def pat_union(a, b):
    return ("%s|%s" % (a, b), "self::%s or self::%s" % (a, b), lambda n: is_elem(n, a) or is_elem(n, b))


PAT_STAR = ("*", "self::*", lambda n: is_elem(n))
PAT_NODE = ("node()", "parent::node()", lambda n: n.kind not in ("root", "attr"))
PAT_TEXT = ("text()", "self::text()", lambda n: n.kind == "text")
PAT_COMMENT = ("comment()", "self::comment()", lambda n: n.kind == "comment")
PAT_PI = ("processing-instruction()", "self::processing-instruction()", lambda n: n.kind == "pi")
PAT_ROOT = ("/", "not(parent::node()) and not(self::*)", lambda n: n.kind == "root")


def pat_attr(a):
    return ("%s[@k]" % a, "self::%s[@k]" % a, lambda n: is_elem(n, a) and "k" in n.attrs)


def pat_star_attr():
    return ("*[@k]", "self::*[@k]", lambda n: is_elem(n) and "k" in n.attrs)


def pat_child(p, a):
    return ("%s/%s" % (p, a), "self::%s[parent::%s]" % (a, p),
            lambda n: is_elem(n, a) and n.parent is not None and is_elem(n.parent, p))


def pat_desc(p, a):
    return ("%s//%s" % (p, a), "self::%s[ancestor::%s]" % (a, p),
            lambda n: is_elem(n, a) and any(is_elem(q, p) for q in ancestors(n)))


def pat_not(a):
    return ("*[not(self::%s)]" % a, "self::*[not(self::%s)]" % a, lambda n: is_elem(n) and not is_elem(n, a))


def pat_haschild(a, b):
    return ("%s[%s]" % (a, b), "self::%s[%s]" % (a, b), lambda n: is_elem(n, a) and any(is_elem(k, b) for k in n.kids))


def pat_root_or(a):
    return ("%s|/" % a, "self::%s or (not(parent::node()) and not(self::*))" % a, lambda n: is_elem(n, a) or n.kind == "root")


def gen_count_pattern(r):
    k = r.weighted([("name", 8), ("union", 4), ("star", 4), ("node", 3), ("text", 2), ("attr", 2), ("child", 2),
                    ("desc", 2), ("not", 2), ("haschild", 1), ("comment", 1), ("pi", 1), ("starattr", 1)])
    a = r.choice(NAMES)
    if r.chance(1, 6):
        a = r.choice(["p:", "pre:"]) + a
    b = r.choice([n for n in NAMES if n != a])
    return {"name": lambda: pat_name(a), "union": lambda: pat_union(a, b), "star": lambda: PAT_STAR,
            "node": lambda: PAT_NODE, "text": lambda: PAT_TEXT, "attr": lambda: pat_attr(a),
            "child": lambda: pat_child(b, a), "desc": lambda: pat_desc(b, a), "not": lambda: pat_not(a),
            "haschild": lambda: pat_haschild(a, b), "comment": lambda: PAT_COMMENT, "pi": lambda: PAT_PI,
            "starattr": pat_star_attr}[k]()


def gen_from_pattern(r):
    k = r.weighted([("name", 8), ("union", 3), ("attr", 2), ("child", 2), ("haschild", 2), ("comment", 1),
                    ("text", 1), ("starattr", 1)])
    a = r.weighted([("h", 4), ("s", 4), ("x", 1), ("y", 1)])
    b = r.choice([n for n in NAMES if n != a])
    if r.chance(1, 6):
        a = r.choice(["p:", "pre:"]) + a
    return {"name": lambda: pat_name(a), "union": lambda: pat_union(a, b), "attr": lambda: pat_attr(a),
            "child": lambda: pat_child(b, a), "haschild": lambda: pat_haschild(a, b), "comment": lambda: PAT_COMMENT,
            "text": lambda: PAT_TEXT, "starattr": pat_star_attr}[k]()


# ------------------------------------------------------------------------------------------------
# formats

ALNUM_TOKENS = [("1", 8), ("01", 3), ("001", 2), ("a", 4), ("A", 4), ("i", 4), ("I", 4), ("0", 1), ("1a", 1),
                ("xA", 1), ("é", 1), ("0001", 1), ("11", 1), ("Z", 1)]
SEP_TOKENS = [(".", 6), ("-", 3), (") (", 1), (" ", 2), ("::", 1), ("—", 1), (")", 2), ("(", 1), ("/", 1), (".-.", 1)]


def gen_format(r, maxtok=4):
    """returns format string (possibly '' meaning: attribute absent)"""
    if r.chance(1, 5):
        return None
    s = ""
    if r.chance(1, 4):
        s += r.weighted(SEP_TOKENS)
    nt = r.range(1, maxtok)
    for i in range(nt):
        s += r.weighted(ALNUM_TOKENS)
        if i < nt - 1 or r.chance(1, 3):
            s += r.weighted(SEP_TOKENS)
    if r.chance(1, 20):
        s = r.weighted(SEP_TOKENS)      # only a separator
    return s


def gen_grouping(r):
    if not r.chance(1, 4):
        return None
    sep = r.weighted([(",", 5), ("'", 2), ("_", 1), (" ", 1)])
    size = r.weighted([(3, 6), (1, 2), (2, 2), (4, 1), (0, 1), (7, 1)])
    return (sep, size)


def units(s):
    """UTF-16 code units, 4 hex digits each; '-' for empty/None"""
    if not s:
        return "-"
    b = s.encode("utf-16-be")
    return "".join("%02x" % c for c in b)


def from_units(h):
    if h == "-" or not h:
        return ""
    return bytes.fromhex(h).decode("utf-16-be", "replace")


def xml_attr(s):
    return s.replace("&", "&amp;").replace("<", "&lt;").replace('"', "&quot;").replace("{", "{{").replace("}", "}}")


# ------------------------------------------------------------------------------------------------
# instructions

class Instr:
    def __init__(self, level, count=None, frm=None, fmt=None, grouping=None):
        self.level = level          # single | multiple | any
        self.count = count          # pattern triple or None
        self.frm = frm
        self.fmt = fmt              # str or None
        self.grouping = grouping    # (sep, size) or None

    def attrs(self):
        a = ' level="%s"' % self.level
        if self.count:
            a += ' count="%s"' % xml_attr(self.count[0])
        if self.frm:
            a += ' from="%s"' % xml_attr(self.frm[0])
        if self.fmt is not None:
            a += ' format="%s"' % xml_attr(self.fmt)
        if self.grouping:
            a += ' grouping-separator="%s" grouping-size="%d"' % (xml_attr(self.grouping[0]), self.grouping[1])
        return a

    def describe(self):
        return "level=%s count=%s from=%s format=%r grouping=%r" % (
            self.level, self.count[0] if self.count else None, self.frm[0] if self.frm else None, self.fmt, self.grouping)

    def to_json(self):
        return {"level": self.level, "count": self.count[0] if self.count else None,
                "from": self.frm[0] if self.frm else None, "format": self.fmt, "grouping": list(self.grouping) if self.grouping else None}


def gen_instr(r):
    level = r.weighted([("any", 5), ("multiple", 4), ("single", 3)])
    count = gen_count_pattern(r) if r.chance(3, 4) else None
    frm = gen_from_pattern(r) if r.chance(2, 5) else None
    fmt = gen_format(r) if r.chance(1, 2) else None
    grouping = gen_grouping(r) if fmt is not None else None
    return Instr(level, count, frm, fmt, grouping)


def def_snippet(ins):
    """XSLT that prints the defining expression of XSLT 1.0 section 7.7 for the context node as a dotted decimal list
    ('?' for the default count pattern on a node that is not an element)."""
    if ins.count is None:
        # the default count pattern of an element: same node type and expanded name as the current node (inside the
        # for-each over the matching ancestors current() is that ancestor, which has the same expanded name)
        elem = _def_snippet(ins, "self::*[local-name()=local-name(current()) and namespace-uri()=namespace-uri(current())]")
        return '<xsl:choose><xsl:when test="self::*">%s</xsl:when><xsl:otherwise>?</xsl:otherwise></xsl:choose>' % elem
    return _def_snippet(ins, ins.count[1])


def _def_snippet(ins, P):
    if ins.level == "any":
        allp = "(preceding::node()|ancestor-or-self::node())[%s]" % P
        if not ins.frm:
            return '<xsl:value-of select="count(%s)"/>' % allp
        FP = ins.frm[1]
        # a candidate is counted unless some from-matching node before the current node is the candidate itself or
        # comes after it (no positional predicate on a union: its order is not reliable in this processor)
        return ('<xsl:variable name="S" select="(preceding::node()|ancestor::node())[%s]"/>'
                '<xsl:value-of select="count(%s[not((following::node()|descendant-or-self::node())[count(.|$S)=count($S)])])"/>'
                % (FP, allp))
    pre = ""
    inn = ""
    if ins.frm:
        pre = '<xsl:variable name="F" select="ancestor::node()[%s][1]"/>' % ins.frm[1]
        inn = "[not($F) or count(ancestor::node()|$F)=count(ancestor::node())]"
    num = '<xsl:value-of select="1+count(preceding-sibling::node()[%s])"/>' % P
    if ins.level == "single":
        return pre + '<xsl:for-each select="ancestor-or-self::node()%s[%s][1]">%s</xsl:for-each>' % (inn, P, num)
    return pre + ('<xsl:for-each select="ancestor-or-self::node()%s[%s]">%s<xsl:if test="position()!=last()">.</xsl:if>'
                  '</xsl:for-each>' % (inn, P, num))


def gen_history(r, n, kind):
    ids = list(range(n))
    if kind == "doc":
        return ids
    if kind == "rev":
        return ids[::-1]
    if kind == "shuffle":
        return r.shuffle(ids)
    if kind == "repeat":
        return [r.below(n) for _ in range(r.range(1, n + n // 2 + 1))]
    if kind == "sub":
        k = r.range(1, n)
        return r.shuffle(ids)[:k]
    raise ValueError(kind)


def sort_perm(r, n):
    """affine permutation realised inside the stylesheet by xsl:sort: key(i) = (i*A+B) mod P, P prime > n"""
    primes = [p for p in (53, 59, 61, 67, 71, 73, 79, 83, 89, 97, 101, 103, 107, 109, 113, 127, 131, 137, 139, 149)
              if p > n]
    P = r.choice(primes) if primes else 211
    A = r.range(2, P - 1)
    B = r.below(P)
    order = sorted(range(n), key=lambda i: (i * A + B) % P)
    return (A, B, P), order


def stylesheet(instrs_orders):
    """instrs_orders: list of (Instr, [history…]) where a history is a list of node indices or ('sort',(A,B,P),order).
    Each (instruction, history) pair gets its own xsl:number element (its own counters)."""
    out = ['<xsl:stylesheet version="1.0" xmlns:xsl="http://www.w3.org/1999/XSL/Transform" xmlns:p="urn:p" xmlns:pre="urn:pre"><xsl:output method="text" encoding="UTF-8"/>']
    body = ['<xsl:template match="/"><xsl:variable name="all" select=".|//node()"/>']
    for j, (ins, hists) in enumerate(instrs_orders):
        d = def_snippet(ins)
        for k, h in enumerate(hists):
            name = "n%do%d" % (j, k)
            out.append('<xsl:template name="%s"><xsl:text>#%d.%d:</xsl:text>'
                       '<xsl:value-of select="count(preceding::node()|ancestor::node())"/><xsl:text>=</xsl:text>'
                       '<xsl:number%s/><xsl:text>=</xsl:text>%s<xsl:text>&#10;</xsl:text></xsl:template>' % (name, j, k, ins.attrs(), d))
            if isinstance(h, tuple):
                A, B, P = h[1]
                body.append('<xsl:for-each select="$all"><xsl:sort select="(count(preceding::node()|ancestor::node())*%d+%d) mod %d" '
                            'data-type="number"/><xsl:call-template name="%s"/></xsl:for-each>' % (A, B, P, name))
            else:
                for i in h:
                    body.append('<xsl:for-each select="$all[%d]"><xsl:call-template name="%s"/></xsl:for-each>' % (i + 1, name))
    body.append("</xsl:template>")
    return "".join(out) + "".join(body) + "</xsl:stylesheet>"


def visits_of(h):
    return list(h[2]) if isinstance(h, tuple) else list(h)


def lean_lines(root, instrs_orders):
    nodes = preorder(root)
    lines = ["doc " + " ".join(str(n.parent.idx if n.parent is not None else -1) for n in nodes),
             "cls " + " ".join(str(node_class(n)) for n in nodes)]
    for ins, hists in instrs_orders:
        cb = "".join("1" if ins.count[-1](n) else "0" for n in nodes) if ins.count else "-"
        sb = "".join("1" if ins.count[2](n) else "0" for n in nodes) if ins.count and len(ins.count) > 3 else "="
        fb = "".join("1" if ins.frm[2](n) else "0" for n in nodes) if ins.frm else "-"
        for h in hists:
            lines.append("num %s %s %s %s %s %s %s %s" % (
                ins.level[0], cb, sb, fb, units(ins.fmt), units(ins.grouping[0]) if ins.grouping else "-",
                str(ins.grouping[1]) if ins.grouping else "-", " ".join(str(i) for i in visits_of(h))))
    return lines


def value_stylesheet(items):
    """items: list of (value:int, fmt or None, grouping or None)"""
    out = ['<xsl:stylesheet version="1.0" xmlns:xsl="http://www.w3.org/1999/XSL/Transform"><xsl:output method="text" encoding="UTF-8"/>'
           '<xsl:template match="/">']
    for v, fmt, g in items:
        a = ' value="%d"' % v
        if fmt is not None:
            a += ' format="%s"' % xml_attr(fmt)
        if g:
            a += ' grouping-separator="%s" grouping-size="%d"' % (xml_attr(g[0]), g[1])
        out.append("<xsl:number%s/><xsl:text>&#10;</xsl:text>" % a)
    out.append("</xsl:template></xsl:stylesheet>")
    return "".join(out)


def gen_value(r):
    k = r.weighted([("small", 6), ("alpha-edge", 3), ("roman-edge", 3), ("medium", 3), ("big", 2), ("pow10", 2), ("zero", 1)])
    if k == "small":
        return r.range(1, 60)
    if k == "alpha-edge":
        e = r.range(1, 9)
        base = r.choice([26 ** e, (26 ** (e + 1) - 26) // 25, 26 ** e * r.range(1, 25)])   # 26^e, Z…Z, d·26^e
        return max(1, base + r.range(-2, 2))
    if k == "roman-edge":
        return max(1, r.choice([4, 9, 14, 40, 49, 90, 99, 400, 444, 499, 900, 999, 1994, 2888, 3888, 3999, 4000]) + r.range(-1, 1))
    if k == "medium":
        return r.range(1, 5000)
    if k == "big":
        return r.range(1, 10 ** r.range(4, 15))
    if k == "pow10":
        return max(1, 10 ** r.range(1, 14) + r.range(-1, 1))
    return r.choice([0, 0, -1, -25])
