"""C03 generators: malformed / adversarial stylesheets, source documents, XPath strings and parameters.

Two streams (Cedar's lesson: naive byte noise only exercises the XML parser's error path):
  * grammar-aware mutation of valid stylesheets: drop / duplicate / rename attributes and elements, swap in
    adversarial XPath expressions, patterns, numbers (huge, tiny, negative, NaN), formats, deep nesting;
  * byte-level mutation (truncate, flip, delete, insert, duplicate a chunk, bad UTF-8, BOMs, NUL).
Every stylesheet produced terminates: there is no unbounded template recursion (a non-terminating *program*
is outside what "hang" can mean for an XSLT processor; bounded recursion depth is generated).
All randomness comes from the Rng passed in.
"""

XSLNS = "http://www.w3.org/1999/XSL/Transform"


def sty(body, extra_attrs="", top=""):
    return ("<xsl:stylesheet version='1.0' xmlns:xsl='%s'%s>%s%s</xsl:stylesheet>" % (XSLNS, extra_attrs, top, body))


SOURCES = [
    "<r><i>3</i><i>1</i><i>2</i></r>",
    "<doc><h/><a x='1'><b>t</b><b>u</b></a><a x='2'><b/><c><b>v</b></c></a><!--c--><?p d?></doc>",
    "<r xmlns:p='urn:p'><p:e p:a='v'>&lt;&amp;&#x10000;]]&gt;</p:e><e xml:space='preserve'>  </e></r>",
    "<r><n>1</n><n>-0</n><n>1e3</n><n>NaN</n><n>  12.5 </n><n>" + "9" * 60 + "</n><n>0." + "0" * 40 + "1</n></r>",
    "<r>" + "<s>" * 40 + "x" + "</s>" * 40 + "</r>",
]

# adversarial XPath expressions (select / test / match / params)
XPATHS = [
    "1 div 0", "-1 div 0", "0 div 0", "- - 1", "--1", "1" + "0" * 88, "1" + "0" * 89, "1" + "0" * 120, "-1" + "0" * 95,
    "0." + "0" * 50 + "1", "9" * 400, "1e100", "number('1e100')", "." * 50, "/" * 30, "//" * 20 + "x",
    "(" * 200 + "1" + ")" * 200, "(" * 50 + "1", "1" + ")" * 50, "[" * 30, "//*[" * 3 + "1" + "]" * 3,
    "i[99999999999999999999999]", "i[-1]", "i[0.5]", "i[1 div 0]", "i[position() = last() + 1e308 * 10]",
    "substring('abc', -1 div 0, 1 div 0)", "substring('abc', 0 div 0)", "substring('abc', 1e300, 1e300)",
    "substring-before('', '')", "translate('abc', 'abc', '')", "string-length(" + "concat('a'," * 60 + "'b'" + ")" * 60 + ")",
    "format-number(1e100, '#')", "format-number(1 div 0, '#.#')", "format-number(-0.0, '" + "#" * 300 + "')",
    "format-number(12345.678, '#,##0.00;(#)')", "format-number(1, '')", "format-number(1, ';;;')", "format-number(0.5, '%‰')",
    "round(1e308 * 10)", "round(-0.3)", "floor(-1 div 0)", "ceiling(0 div 0)", "sum(//n)", "sum(//*)", "number(//n[6]) * 10",
    "id('x y z')", "key('nokey', 1)", "document('')", "document('nonexistent-file.xml')", "document('', /)/*", "document(//i)",
    "generate-id(/..)", "name(/..)", "local-name(//@*)", "namespace-uri(//namespace::*)", "//namespace::*", "//@*/..", "/..",
    "unknown-function(1)", "p:f(1)", "xsl:foo()", "$undefined", "$", "@", "@@", "..:..", "a::b", "child::", "ancestor-or-self::node()[1000000]",
    "'unterminated", '"unterminated', "'é中\U0001f600'", "￾", "a | ", "| a", "1 = = 1", "1 <> 2", "a//", "a[", "a]", "a[]", "a()()", "node(1)",
    "processing-instruction('a', 'b')", "text()()", "* * *", "div div div", "and and and", "or", "mod", "1 mod 0", "5 mod -2",
    "string(1" + "0" * 100 + ")", "boolean(" + "not(" * 100 + "1" + ")" * 100 + ")", "count(" + "//*" * 1 + ")", "lang('en')",
    "system-property('xsl:version')", "system-property('')", "system-property(':')", "function-available('::')", "element-available('xsl:')",
    "current()", "last()", "position()", "unparsed-entity-uri('x')", "normalize-space('" + " a " * 200 + "')", "contains(" + "'a'," * 1 + "'')",
    "concat('a')", "concat()", "substring()", "true(1)", "1 to 3", "for $x in 1 return 1", "\x01", "a\x00b", "&#0;", "1.2.3", "1..2", ".5.", "5.", ".",
]

PATTERNS = [
    "/", "*", "node()", "text()", "@*", "i", "r/i", "r//i", "//i", "/r/i[1]", "i[last()]", "i|n|b", "id('a')/b", "key('k','v')", "*[1][1][1]",
    "i[", "//", "/..", "..", "a/../b", "$x", "1", "'s'", "a | ", "child::a/attribute::b", "ancestor::a", "processing-instruction()", "comment()",
    "a" * 3000, "*[" + "not(" * 40 + "1" + ")" * 40 + "]", "p:*", "*:a", "@@a", "a[@b=" + "9" * 100 + "]", "/" * 10,
]

FORMATS = ["1", "01", "001", "a", "A", "i", "I", "α", "а", "א", "ა", "あ", "一", "1.1.1", "(1)", "", " ", "#", "a" * 300,
           "1" * 120, "١", "๑", "\U0001d7ce", "w", "W", "Ww", "1,a;i"]
NUMBER_VALUES = ["0", "1", "26", "27", "3999", "4000", "-1", "0.4", "0.5", "1e3", "1 div 0", "0 div 0", "-1 div 0", "18446744073709549568",
                 "18446744073709551616", "1" + "0" * 25, "9223372036854775808", "4294967296", "1" + "0" * 89, "1" + "0" * 100, "9007199254740993"]

BASES = [
    # (stylesheet, source index)
    (sty("<xsl:template match='/'><o><xsl:for-each select='r/i'><xsl:sort select='.' data-type='number' order='descending'/>"
         "<v><xsl:value-of select='. * 2'/></v></xsl:for-each></o></xsl:template>", top="<xsl:output method='xml' indent='yes'/>"), 0),
    (sty("<xsl:template match='/'><o><xsl:for-each select='//b'>"
         "<n><xsl:number level='multiple' count='a|b|c' format='1.a.i'/></n></xsl:for-each></o></xsl:template>"), 1),
    (sty("<xsl:template match='/'><o><xsl:for-each select='//b'><xsl:number level='any' count='b' from='h' format='A'/>,"
         "<xsl:number level='single' count='b'/>;</xsl:for-each></o></xsl:template>"), 1),
    (sty("<xsl:param name='p' select='5'/><xsl:variable name='v' select='$p * 2'/><xsl:key name='k' match='b' use='.'/>"
         "<xsl:template match='/'><o a='{$v}'><xsl:copy-of select=\"key('k','t')\"/><xsl:value-of select='$p'/>"
         "<xsl:if test='$v &gt; 3'>y</xsl:if><xsl:choose><xsl:when test='false()'>n</xsl:when><xsl:otherwise>o</xsl:otherwise></xsl:choose>"
         "</o></xsl:template>"), 1),
    (sty("<xsl:template match='/'><xsl:element name='{name(/*)}'><xsl:attribute name='a' namespace='urn:x'>v</xsl:attribute>"
         "<xsl:comment>c</xsl:comment><xsl:processing-instruction name='pi'>d</xsl:processing-instruction>"
         "<xsl:text disable-output-escaping='yes'>&lt;</xsl:text><xsl:copy-of select='/'/></xsl:element></xsl:template>",
         top="<xsl:output method='xml' cdata-section-elements='e' encoding='US-ASCII'/>"), 2),
    (sty("<xsl:decimal-format name='d' decimal-separator=',' grouping-separator='.'/>"
         "<xsl:template match='/'><o><xsl:for-each select='//n'><v><xsl:value-of select=\"format-number(., '#.##0,00', 'd')\"/>|"
         "<xsl:value-of select='number(.)'/>|<xsl:value-of select='round(.)'/></v></xsl:for-each></o></xsl:template>"), 3),
    (sty("<xsl:template match='/'><html><head><title>t</title></head><body><p class='c'><xsl:value-of select='//e'/><br/>"
         "<a href='{//e}'>l</a><script>if (a &lt; b) x();</script></p></body></html></xsl:template>", top="<xsl:output method='html' indent='yes'/>"), 2),
    (sty("<xsl:template match='/'><xsl:call-template name='f'><xsl:with-param name='n' select='12'/></xsl:call-template></xsl:template>"
         "<xsl:template name='f'><xsl:param name='n'/><xsl:if test='$n &gt; 0'><d><xsl:call-template name='f'>"
         "<xsl:with-param name='n' select='$n - 1'/></xsl:call-template></d></xsl:if></xsl:template>"), 0),
    (sty("<xsl:strip-space elements='*'/><xsl:preserve-space elements='e'/><xsl:template match='*'><xsl:copy><xsl:apply-templates select='@*|node()'/>"
         "</xsl:copy></xsl:template><xsl:template match='@*|text()|comment()|processing-instruction()'><xsl:copy/></xsl:template>",
         top="<xsl:output method='text'/>"), 2),
    (sty("<xsl:template match='/'><o><xsl:for-each select='//s'><xsl:number level='multiple' count='s' format='1.'/></xsl:for-each></o></xsl:template>"), 4),
    (sty("<xsl:template match='/'><xsl:message terminate='no'>m</xsl:message><o><xsl:apply-templates select='//a' mode='m'><xsl:sort select='@x' "
         "data-type='text' lang='en' case-order='upper-first'/></xsl:apply-templates></o></xsl:template><xsl:template match='a' mode='m' priority='2'>"
         "<xsl:value-of select='@x'/></xsl:template><xsl:template match='a' mode='m'><xsl:value-of select='@x'/></xsl:template>"), 1),
]

XSL_ELEMS = ["template", "value-of", "for-each", "if", "choose", "when", "otherwise", "apply-templates", "call-template", "with-param",
             "param", "variable", "number", "sort", "copy", "copy-of", "element", "attribute", "text", "comment", "processing-instruction",
             "key", "output", "decimal-format", "strip-space", "preserve-space", "include", "import", "message", "fallback", "apply-imports",
             "attribute-set", "namespace-alias", "stylesheet", "transform", "bogus"]


import re

# elements whose select/name decide whether template recursion is bounded: never the target of an expression mutation,
# never the result of a rename (a mutated stylesheet must stay a terminating program)
RECURSIVE = ("xsl:apply-templates", "xsl:with-param", "xsl:call-template", "xsl:apply-imports")
RENAME_TARGETS = None
MAX_DEPTH = 5000

ATTR_RE = re.compile(r"\s([\w:.-]+)='([^']*)'")


def esc_attr(s):
    return s.replace("&", "&amp;").replace("<", "&lt;").replace("'", "&apos;")


def grammar_mutate(r, s):
    """one grammar-aware mutation of a stylesheet string"""
    attrs = list(ATTR_RE.finditer(s))
    k = r.weighted([("xpath", 30), ("pattern", 10), ("dropattr", 8), ("dupattr", 5), ("renameattr", 5), ("renameelem", 8),
                    ("number", 14), ("deepwrap", 6), ("value", 8), ("format", 8), ("insertelem", 8), ("fnformat", 6)])
    if k in ("xpath", "pattern", "value", "format") and attrs:
        want = {"xpath": ("select", "test", "use", "value"), "pattern": ("match", "count", "from"),
                "value": ("name", "mode", "priority", "order", "data-type", "method", "encoding", "indent", "version", "lang", "level",
                          "namespace", "elements", "cdata-section-elements", "terminate", "disable-output-escaping", "case-order"),
                "format": ("format", "grouping-size", "grouping-separator", "letter-value")}[k]
        def owner(m):
            i = s.rfind("<", 0, m.start())
            mm = re.match(r"</?([\w:.-]+)", s[i:i + 60]) if i >= 0 else None
            return mm.group(1) if mm else ""
        cands = [m for m in attrs if m.group(1) in want and owner(m) not in RECURSIVE]
        if cands:
            m = r.choice(cands)
            if k == "xpath":
                v = r.choice(XPATHS)
                if r.chance(1, 4):
                    v = m.group(2) + r.choice([" + ", " | ", " = ", "[", " and ", "/", " div "]) + v
            elif k == "pattern":
                v = r.choice(PATTERNS)
            elif k == "format":
                v = r.choice(FORMATS + ["0", "-1", "1e9", "99999999999", " ", "xx"])
            else:
                v = r.choice(["", " ", "yes", "no", "xml", "html", "text", "bogus", "p:q", ":", "1e100", "-1", "9" * 50, "UTF-16", "EBCDIC-CP-US",
                              "ISO-8859-1", "US-ASCII", "UTF-32", "nonexistent-encoding", "{", "{{", "{1 div 0}", "{" * 40, "}", "{//e}{", "#default",
                              "number", "text", "ascending", "a b c", "*", "xsl:template", "é", "x" * 5000, "2.0", "0.5", "any", "multiple", "single"])
            return s[:m.start(2)] + esc_attr(v) + s[m.end(2):]
    if k == "dropattr" and attrs:
        m = r.choice(attrs)
        return s[:m.start()] + s[m.end():]
    if k == "dupattr" and attrs:
        m = r.choice(attrs)
        return s[:m.end()] + s[m.start():m.end()] + s[m.end():]
    if k == "renameattr" and attrs:
        m = r.choice(attrs)
        nn = r.choice(["select", "match", "name", "test", "use", "xsl:version", "xmlns:xsl", "xmlns", "xml:space", "xml:lang", "bogus", "use-attribute-sets",
                       "xsl:use-attribute-sets", "exclude-result-prefixes", "extension-element-prefixes", "href", "mode", "priority"])
        return s[:m.start(1)] + nn + s[m.end(1):]
    if k == "renameelem":
        ms = list(re.finditer(r"<(/?)xsl:([\w-]+)", s))
        if ms:
            m = r.choice(ms)
            tgt = r.choice([e for e in XSL_ELEMS if "xsl:" + e not in RECURSIVE])
            return s[:m.start(2)] + tgt + s[m.end(2):]
    if k == "number":
        i = s.find("<o>")
        v = r.choice(NUMBER_VALUES)
        f = r.choice(FORMATS)
        extra = r.choice(["", " grouping-separator=',' grouping-size='3'", " grouping-size='0' grouping-separator=','", " letter-value='traditional'",
                          " lang='el' letter-value='traditional'", " grouping-size='-1' grouping-separator='x'", " lang='" + "x" * 300 + "'"])
        form = r.weighted([("value", 6), ("count", 3)])
        if form == "value":
            ins = "<xsl:number value='%s' format='%s'%s/>" % (esc_attr(v), esc_attr(f), extra)
        else:
            ins = "<xsl:number level='%s' count='%s' from='%s' format='%s'/>" % (
                r.choice(["single", "multiple", "any"]), esc_attr(r.choice(PATTERNS[:12])), esc_attr(r.choice(PATTERNS[:12])), esc_attr(f))
        if i >= 0:
            return s[:i + 3] + ins + s[i + 3:]
        j = s.find("<xsl:template")
        j = s.find(">", j) + 1 if j >= 0 else -1
        if j > 0:
            return s[:j] + ins + s[j:]
    if k == "fnformat":
        i = s.find("<o>")
        pat = r.choice(["#", "0", "#,##0.00", "0.0E0", "#;#;#", "'", "'#'#", "%", "‰", "#.#.#", "#,#,#", "0" * 400, "#" * 400 + ".0" * 3, ";", "", "¤#", "-#", "#-", "##0.###################################",
                        "000,000,000,000,000,000,000,000.000000000000"])
        v = r.choice(NUMBER_VALUES + ["-0.0", "0.000001", "123456789.987654321", "1e-10"])
        ins = "<xsl:value-of select=\"format-number(%s, '%s')\"/>" % (v if not v[0].isalpha() else "1", esc_attr(pat).replace("&apos;", "''"))
        if i >= 0:
            return s[:i + 3] + ins + s[i + 3:]
    if k == "deepwrap":
        i = s.find("<o>")
        j = s.find("</o>")
        n = min(MAX_DEPTH, r.choice([10, 100, 1000, 5000]))
        w = r.choice(["lit", "foreach", "if", "elem", "copy", "var"])
        if i >= 0 and j > i:
            op, cl = {"lit": ("<w>", "</w>"), "foreach": ("<xsl:for-each select='.'>", "</xsl:for-each>"), "if": ("<xsl:if test='1'>", "</xsl:if>"),
                      "elem": ("<xsl:element name='w'>", "</xsl:element>"), "copy": ("<xsl:copy>", "</xsl:copy>"),
                      "var": ("<xsl:variable name='q'>", "</xsl:variable>")}[w]
            if w == "var":
                n = min(n, 100)
            return s[:i + 3] + op * n + s[i + 3:j] + cl * n + s[j:]
    if k == "insertelem":
        ms = list(re.finditer(r">", s))
        if ms:
            m = r.choice(ms)
            e = r.choice(XSL_ELEMS)
            if "xsl:" + e in RECURSIVE:
                return s[:m.end()] + "<xsl:%s/>" % e + s[m.end():]
            a = r.choice(["", " select='.'", " name='x'", " match='*'", " test='1'", " href='nonexistent.xsl'", " href=''", " elements='*'",
                          " name='x' select='$x'", " name='{1 div 0}'", " name='xmlns'", " name='xmlns:p' namespace='urn:q'", " name='a:b'",
                          " stylesheet-prefix='a' result-prefix='b'", " use-attribute-sets='x y z'", " name='d' NaN='" + "N" * 200 + "' infinity=''",
                          " name='d' zero-digit='x' digit='x' decimal-separator='x' grouping-separator='x'"])
            body = r.choice(["/", "></xsl:%s" % e, ">x</xsl:%s" % e])
            return s[:m.end()] + "<xsl:%s%s%s>" % (e, a, body) + s[m.end():]
    return byte_mutate(r, s.encode("utf-8")).decode("utf-8", "replace")


def byte_mutate(r, b):
    if not b:
        return b"<"
    k = r.weighted([("trunc", 5), ("flip", 5), ("del", 4), ("ins", 6), ("dup", 3), ("badutf", 4), ("bom", 2), ("nul", 2), ("swapquote", 2), ("ent", 4), ("huge", 2)])
    n = len(b)
    p = r.below(n)
    if k == "trunc":
        return b[:p]
    if k == "flip":
        return b[:p] + bytes([b[p] ^ (1 << r.below(8))]) + b[p + 1:]
    if k == "del":
        q = min(n, p + r.range(1, 12))
        return b[:p] + b[q:]
    if k == "ins":
        tok = r.choice([b"<", b">", b"&", b"'", b'"', b"]]>", b"<![CDATA[", b"<!--", b"-->", b"<?", b"?>", b"&#0;", b"&#xD800;", b"&#x110000;", b"&#xFFFE;",
                        b"&amp", b"&nosuch;", b"<!DOCTYPE x [", b"\r", b"\x0b", b"\x7f", b"{", b"}", b"xmlns=''", b" xmlns:xsl='urn:other'", b"\xc2", b"\xff",
                        b"<xsl:text>", b"</xsl:stylesheet>", b"<?xml version='1.1'?>", b"<?xml version='1.0' encoding='UTF-16'?>", b"&lt;" * 50])
        return b[:p] + tok + b[p:]
    if k == "dup":
        q = min(n, p + r.range(1, 200))
        return b[:q] + b[p:q] * r.choice([1, 2, 50]) + b[q:]
    if k == "badutf":
        return b[:p] + r.choice([b"\xc0\xaf", b"\xed\xa0\x80", b"\xf4\x90\x80\x80", b"\xef\xbf\xbe", b"\xe2\x82", b"\x80", b"\xf8\x88\x80\x80\x80", b"\xef\xbf\xbf"]) + b[p:]
    if k == "bom":
        return r.choice([b"\xef\xbb\xbf", b"\xff\xfe", b"\xfe\xff", b"\x00\x00\xfe\xff"]) + b
    if k == "nul":
        return b[:p] + b"\x00" + b[p:]
    if k == "swapquote":
        return b.replace(b"'", b'"', 1) if r.chance(1, 2) else b.replace(b"'", b"", 1)
    if k == "ent":
        dtd = r.choice([
            b"<!DOCTYPE x [<!ENTITY a 'aaaaaaaaaa'><!ENTITY b '&a;&a;&a;&a;&a;&a;&a;&a;'><!ENTITY c '&b;&b;&b;&b;&b;&b;&b;&b;'>]>",
            b"<!DOCTYPE x [<!ENTITY a '&a;'>]>", b"<!DOCTYPE x [<!ENTITY a SYSTEM 'nonexistent-entity-file'>]>",
            b"<!DOCTYPE x SYSTEM 'nonexistent.dtd'>", b"<!DOCTYPE x [<!ELEMENT x ANY><!ATTLIST x id ID #IMPLIED>]>",
            b"<!DOCTYPE x [<!ENTITY % p '<!ENTITY q \"r\">'>%p;]>", b"<!DOCTYPE x [<!NOTATION n SYSTEM 'n'><!ENTITY u SYSTEM 'u' NDATA n>]>"])
        i = b.find(b"<")
        ref = r.choice([b"", b"&a;", b"&c;", b"&q;", b"&u;"])
        j = b.find(b">", i) + 1
        return b[:i] + dtd + b[i:j] + ref + b[j:] if i >= 0 and j > 0 else dtd + b
    if k == "huge":
        tok = r.choice([b"x", b"<a>", b" ", b"&#65;", b"9"])
        # Xerces-C resolves the namespace of every start tag by walking its element stack: nesting depth d costs d^2
        # (200000 unclosed <a> = minutes inside libxerces-c); keep generated depth where it costs well under a second
        return b[:p] + tok * r.choice([1000, 20000] if tok == b"<a>" else [1000, 20000, 100000]) + b[p:]
    return b


def gen_case(r):
    """-> (kind, stylesheet bytes, source bytes, params list[(name bytes, expr bytes)])"""
    base, si = r.choice(BASES)
    while "call-template" in base and True:
        # the recursive base is only used unmutated: a mutated test/with-param easily makes the recursion unbounded
        base, si = r.choice(BASES)
    s = base
    src = SOURCES[si].encode("utf-8")
    kind = r.weighted([("grammar", 55), ("bytes-sty", 15), ("bytes-src", 12), ("params", 10), ("valid", 3), ("srcswap", 5)])
    params = []
    if kind == "grammar":
        for _ in range(r.weighted([(1, 6), (2, 3), (3, 1)])):
            s = grammar_mutate(r, s)
        sb = s.encode("utf-8", "surrogatepass") if False else s.encode("utf-8", "replace")
    elif kind == "bytes-sty":
        sb = s.encode("utf-8")
        for _ in range(r.weighted([(1, 6), (2, 3), (4, 1)])):
            sb = byte_mutate(r, sb)
    elif kind == "bytes-src":
        sb = s.encode("utf-8")
        for _ in range(r.weighted([(1, 6), (2, 3), (4, 1)])):
            src = byte_mutate(r, src)
    elif kind == "params":
        sb = BASES[3][0].encode("utf-8")
        src = SOURCES[1].encode("utf-8")
        for _ in range(r.range(1, 3)):
            nm = r.choice(["p", "q", "p:q", "{urn:x}p", "", " ", ":", "1", "p p", "é", "{", "{}p", "x" * 300])
            ex = r.choice(XPATHS + ["'v'", "5", "//b", "/", "'" + "s" * 3000 + "'"])
            params.append((nm.encode("utf-8"), ex.encode("utf-8")))
    elif kind == "srcswap":
        sb = s.encode("utf-8")
        src = r.choice(SOURCES).encode("utf-8")
    else:
        if r.chance(1, 3):
            s, si2 = BASES[7]
            src = SOURCES[si2].encode("utf-8")
        sb = s.encode("utf-8")
    if len(sb) > 1500000:
        sb = sb[:1500000]
    return kind, sb, src, params


def gen_xpath_case(r):
    """-> (expr bytes, source bytes, encoding or None)"""
    e = r.choice(XPATHS)
    k = r.weighted([("plain", 6), ("combo", 3), ("bytes", 3), ("long", 2)])
    if k == "combo":
        e = e + r.choice([" | ", " + ", " = ", " and ", "/", "[", "]"]) + r.choice(XPATHS)
    eb = e.encode("utf-8", "replace")
    if k == "bytes":
        eb = byte_mutate(r, eb)
    if k == "long":
        n = r.choice([98, 99, 100, 101, 1023, 1024, 1025])
        eb = (b"1+" * n)[:n - 1] + b"1"
        eb = eb[:n]
    eb = eb.replace(b"\x00", b"")   # C strings
    # XPath compilation time grows quadratically with the length of the expression (60 kB: 16 s on the plain build, minutes under
    # ASan): slow, not hung; keep generated expressions where they cost well under a second
    if len(eb) > 6000:
        eb = eb[:6000]
    src = r.choice(SOURCES).encode("utf-8")
    if r.chance(1, 6):
        src = byte_mutate(r, src).replace(b"\x00", b"")
    enc = r.choice([None, None, "UTF-8", "ISO-8859-1", "US-ASCII", "UTF-16", "nonexistent", ""])
    return eb, src, enc


# ---------------------------------------------------------------------------------------------------------------------
# one compiled stylesheet used twice on the same transformer: first run aborts half-way when $fail is true

FAIL_ACTIONS = [
    "<xsl:if test='$fail'><xsl:message terminate='yes'>stop</xsl:message></xsl:if>",
    "<xsl:if test='$fail'><xsl:value-of xmlns:inj='urn:c03' select=\"inj:throw('XPathParserException')\"/></xsl:if>",
    "<xsl:if test='$fail'><xsl:value-of xmlns:inj='urn:c03' select=\"inj:throw('XalanDOMException')\"/></xsl:if>",
    "<xsl:if test='$fail'><xsl:value-of xmlns:inj='urn:c03' select=\"inj:throw('xerces_SAXException')\"/></xsl:if>",
    "<xsl:if test='$fail'><xsl:value-of xmlns:inj='urn:c03' select=\"inj:throw('xerces_RuntimeException')\"/></xsl:if>",
    "<xsl:if test='$fail'><xsl:value-of xmlns:inj='urn:c03' select=\"inj:throw('std_bad_alloc')\"/></xsl:if>",
    "<xsl:if test='$fail'><xsl:value-of xmlns:inj='urn:c03' select=\"inj:throw('xerces_OutOfMemoryException')\"/></xsl:if>",
]


def reuse_stylesheets(fa):
    """stylesheets whose failure point sits inside a construct that keeps per-transformation state"""
    P = "<xsl:param name='fail' select='false()'/>"
    return [
        # attribute sets (recursion detector stack), nested and merged
        sty("<xsl:template match='/'><o xsl:use-attribute-sets='s'><xsl:element name='e' use-attribute-sets='s t'/><xsl:for-each select='//b'>"
            "<xsl:copy use-attribute-sets='t'/></xsl:for-each></o></xsl:template>",
            top=P + "<xsl:attribute-set name='s' use-attribute-sets='t'><xsl:attribute name='a'>" + fa + "v</xsl:attribute></xsl:attribute-set>"
            "<xsl:attribute-set name='t'><xsl:attribute name='b'>w</xsl:attribute></xsl:attribute-set>"),
        sty("<xsl:template match='/'><o><xsl:element name='e' use-attribute-sets='s'/></o></xsl:template>",
            top=P + "<xsl:attribute-set name='s' use-attribute-sets='t'><xsl:attribute name='a'>v</xsl:attribute></xsl:attribute-set>"
            "<xsl:attribute-set name='t'><xsl:attribute name='b'>" + fa + "w</xsl:attribute></xsl:attribute-set>"),
        # sort + variables + pending element
        sty("<xsl:template match='/'><o><xsl:for-each select='//b'><xsl:sort select='.' order='descending'/><xsl:variable name='v' select='.'/>"
            "<p x='{$v}'><xsl:if test='position() = 2'>" + fa + "</xsl:if><xsl:value-of select='$v'/></p></xsl:for-each></o></xsl:template>", top=P),
        # keys + number counters
        sty("<xsl:template match='/'><o><xsl:for-each select=\"key('k','t') | key('k','u') | //c/b\"><xsl:number level='any' count='b'/>"
            "<xsl:if test='position() = 2'>" + fa + "</xsl:if>,</xsl:for-each><xsl:number level='multiple' count='a|b' format='1.1'/></o></xsl:template>",
            top=P + "<xsl:key name='k' match='b' use='.'/>"),
        # result tree fragment, copy-of, nested templates with parameters, text output
        sty("<xsl:template match='/'><xsl:variable name='f'><x><xsl:apply-templates select='//a'><xsl:with-param name='q' select='7'/></xsl:apply-templates></x>"
            "</xsl:variable><o><xsl:copy-of select='$f'/><xsl:value-of select=\"format-number(count(//b), '#,##0.0', 'd')\"/></o></xsl:template>"
            "<xsl:template match='a'><xsl:param name='q'/><y q='{$q}'><xsl:if test=\"@x = '2'\">" + fa + "</xsl:if><xsl:value-of select='@x'/></y></xsl:template>",
            top=P + "<xsl:decimal-format name='d' decimal-separator='!' grouping-separator='_'/><xsl:output method='xml' indent='yes' cdata-section-elements='y'/>"),
    ]


def gen_reuse_case(r):
    """-> (stylesheet bytes, source bytes, params A, params B)   params = list[(name, expr)]"""
    fa = r.choice(FAIL_ACTIONS)
    s = r.choice(reuse_stylesheets(fa))
    src = SOURCES[1]
    order = r.weighted([("fail-then-ok", 8), ("ok-then-ok", 1), ("fail-then-fail", 1)])
    A = [("fail", "true()" if order != "ok-then-ok" else "false()")]
    B = [("fail", "true()" if order == "fail-then-fail" else "false()")]
    return s.encode("utf-8"), src.encode("utf-8"), A, B


SEP_POOL = [",", ".", "_", "|", ":", "~", "!", "@", "^", "*", "=", "/", "?", "$", "&amp;", "x", "y", "z", "q", "w", " "]


def gen_decfmt_case(r, nmin=11, nmax=16):
    """a stylesheet with more decimal-formats than the ICU functor caches (10), each with its own symbols, used in random order, twice"""
    n = r.range(nmin, nmax)
    fmts = []
    used = set()
    for i in range(n):
        while True:
            d, g = r.choice(SEP_POOL), r.choice(SEP_POOL)
            if d != g and (d, g) not in used:
                used.add((d, g))
                break
        extra = r.choice(["", " minus-sign='m'", " NaN='nan%d'" % i, " infinity='inf%d'" % i, " percent='p' per-mille='r'", " zero-digit='0' digit='#'"])
        fmts.append((i, d, g, extra))
    top = "".join("<xsl:decimal-format name='d%d' decimal-separator='%s' grouping-separator='%s'%s/>" % f for f in fmts)
    body = []
    order = r.shuffle(list(range(n))) + r.shuffle(list(range(n)))
    for i in order:
        _, d, g, _ = fmts[i]
        val = r.choice(["1234567.891", "-0.5", "0", "1 div 0", "0 div 0", "12.3456", "1000000000000000 div 7"])
        body.append("<v><xsl:value-of select=\"format-number(%s, '#%s##0%s0#', 'd%d')\"/></v>" % (val, g, d, i))
    s = sty("<xsl:template match='/'><o>" + "".join(body) + "</o></xsl:template>", top=top)
    return s.encode("utf-8"), b"<r/>"


def recursion_stylesheet(kind):
    """terminating template recursion of depth $n (call-template or apply-templates on the same node)"""
    if kind == "call":
        return sty("<xsl:template match='/'><xsl:call-template name='f'><xsl:with-param name='k' select='$n'/></xsl:call-template></xsl:template>"
                   "<xsl:template name='f'><xsl:param name='k'/><xsl:if test='$k &gt; 0'><xsl:call-template name='f'><xsl:with-param name='k' select='$k - 1'/>"
                   "</xsl:call-template></xsl:if><xsl:if test='$k = 0'>done</xsl:if></xsl:template>", top="<xsl:output method='text'/><xsl:param name='n' select='10'/>")
    if kind == "apply":
        return sty("<xsl:template match='/'><xsl:apply-templates select='*'><xsl:with-param name='k' select='$n'/></xsl:apply-templates></xsl:template>"
                   "<xsl:template match='*'><xsl:param name='k'/><xsl:if test='$k &gt; 0'><xsl:apply-templates select='.'><xsl:with-param name='k' select='$k - 1'/>"
                   "</xsl:apply-templates></xsl:if><xsl:if test='$k = 0'>done</xsl:if></xsl:template>", top="<xsl:output method='text'/><xsl:param name='n' select='10'/>")
    if kind == "call-element":      # builds a result tree as deep as the recursion
        return sty("<xsl:template match='/'><xsl:call-template name='f'><xsl:with-param name='k' select='$n'/></xsl:call-template></xsl:template>"
                   "<xsl:template name='f'><xsl:param name='k'/><d><xsl:if test='$k &gt; 0'><xsl:call-template name='f'><xsl:with-param name='k' select='$k - 1'/>"
                   "</xsl:call-template></xsl:if></d></xsl:template>", top="<xsl:param name='n' select='10'/>")
    # unbounded: must end in a reported error
    if kind == "infinite-call":
        return sty("<xsl:template match='/'><xsl:call-template name='f'/></xsl:template><xsl:template name='f'><xsl:call-template name='f'/></xsl:template>")
    if kind == "infinite-apply":
        return sty("<xsl:template match='/'><xsl:apply-templates select='.'/></xsl:template>")
    if kind == "infinite-mutual":
        return sty("<xsl:template match='/'><xsl:apply-templates select='*'/></xsl:template><xsl:template match='*'><xsl:call-template name='g'/></xsl:template>"
                   "<xsl:template name='g'><x><xsl:apply-templates select='.'/></x></xsl:template>")
    raise ValueError(kind)


# ---------------------------------------------------------------------------------------------------------------------
# structural stream: every XSLT element under every parent, with its required attributes present / missing / empty /
# not a QName / an attribute value template

XSLT_ELEMENTS = {
    # name: (required attributes with a valid value, content when used as a child)
    "apply-imports": ({}, ""), "apply-templates": ({}, ""), "attribute": ({"name": "a"}, "c"), "attribute-set": ({"name": "s"}, ""),
    "call-template": ({"name": "t"}, ""), "choose": ({}, "<xsl:when test='1'>w</xsl:when>"), "comment": ({}, "c"), "copy": ({}, "c"),
    "copy-of": ({"select": "."}, ""), "decimal-format": ({"name": "df"}, ""), "element": ({"name": "e"}, "c"), "fallback": ({}, "c"),
    "for-each": ({"select": "*"}, "c"), "if": ({"test": "1"}, "c"), "import": ({"href": "@GOOD@"}, ""), "include": ({"href": "@GOOD@"}, ""),
    "key": ({"name": "k", "match": "*", "use": "."}, ""), "message": ({}, "c"), "namespace-alias": ({"stylesheet-prefix": "a", "result-prefix": "b"}, ""),
    "number": ({}, ""), "otherwise": ({}, "c"), "output": ({"method": "xml"}, ""), "param": ({"name": "pp"}, "c"), "preserve-space": ({"elements": "*"}, ""),
    "processing-instruction": ({"name": "pi"}, "c"), "sort": ({"select": "."}, ""), "strip-space": ({"elements": "*"}, ""), "stylesheet": ({"version": "1.0"}, ""),
    "template": ({"match": "r"}, "c"), "text": ({}, "c"), "transform": ({"version": "1.0"}, ""), "value-of": ({"select": "."}, ""),
    "variable": ({"name": "vv"}, "c"), "when": ({"test": "1"}, "c"), "with-param": ({"name": "wp"}, "c"),
}
ATTR_VARIANTS = ("good", "missing", "empty", "badqname", "avt")
STRUCT_NS = " xmlns:a='urn:a' xmlns:b='urn:b' xmlns:ext='urn:ext' xmlns:x='urn:x' extension-element-prefixes='ext'"
STRUCT_SOURCE = "<r><i>1</i><i>2</i></r>"


def xslt_element(name, variant, content=None, good_href="nonexistent.xsl"):
    req, dflt = XSLT_ELEMENTS[name]
    if variant == "good":
        attrs = dict(req)
    elif variant == "missing":
        attrs = {}
    else:
        val = {"empty": "", "badqname": "1:bad name", "avt": "{1 div 0}"}[variant]
        attrs = dict((k, val) for k in req) if req else {("select" if variant != "badqname" else "name"): val}
    a = "".join(" %s='%s'" % (k, v.replace("@GOOD@", good_href)) for k, v in attrs.items())
    body = dflt if content is None else content
    return "<xsl:%s%s>%s</xsl:%s>" % (name, a, body, name) if body else "<xsl:%s%s/>" % (name, a)


STRUCT_PARENTS = list(XSLT_ELEMENTS) + ["@top", "@lre", "@text", "@ext", "@toplre", "@topvariable", "@topparam"]


def structural_stylesheet(parent, inner, good_href="nonexistent.xsl"):
    """the element(s) `inner` as children of `parent`, the parent itself in a place where it is legal"""
    def sheet(top="", body=""):
        return ("<xsl:stylesheet version='1.0' xmlns:xsl='%s'%s>%s<xsl:template match='/'><o>%s<xsl:apply-templates select='r'/>"
                "<xsl:call-template name='t'/></o></xsl:template><xsl:template name='t'><xsl:param name='wp'/>T</xsl:template></xsl:stylesheet>"
                % (XSLNS, STRUCT_NS, top, body))
    if parent == "@top":
        return sheet(top=inner)
    if parent == "@lre":
        return sheet(body="<l>" + inner + "</l>")
    if parent == "@text":
        return sheet(body="<xsl:text>" + inner + "</xsl:text>")
    if parent == "@ext":
        return sheet(body="<ext:unknown>" + inner + "<xsl:fallback>f</xsl:fallback></ext:unknown>")
    if parent == "@toplre":
        return sheet(top="<x:data>" + inner + "</x:data>")
    if parent == "@topvariable":
        return sheet(top="<xsl:variable name='gv'>" + inner + "</xsl:variable>", body="<xsl:value-of select='$gv'/>")
    if parent == "@topparam":
        return sheet(top="<xsl:param name='gp'>" + inner + "</xsl:param>", body="<xsl:value-of select='$gp'/>")
    p = xslt_element(parent, "good", content=inner if inner else " ", good_href=good_href)
    if parent in ("attribute-set",):
        return sheet(top=p, body="<e xsl:use-attribute-sets='s'/>")
    if parent in ("decimal-format", "import", "include", "key", "namespace-alias", "output", "preserve-space", "strip-space", "template", "stylesheet", "transform"):
        return sheet(top=p)
    if parent in ("when", "otherwise"):
        pre = "<xsl:when test='0'>n</xsl:when>" if parent == "otherwise" else ""
        return sheet(body="<xsl:choose>" + pre + p + "</xsl:choose>")
    if parent == "with-param":
        return sheet(body="<xsl:call-template name='t'>" + p + "</xsl:call-template>")
    if parent == "sort":
        return sheet(body="<xsl:for-each select='*'>" + p + "x</xsl:for-each>")
    if parent == "fallback":
        return sheet(body="<ext:unknown>" + p + "</ext:unknown>")
    if parent == "param":
        return ("<xsl:stylesheet version='1.0' xmlns:xsl='%s'%s><xsl:template match='/'>%s<o><xsl:call-template name='t'/></o></xsl:template>"
                "<xsl:template name='t'><xsl:param name='wp'/>T</xsl:template></xsl:stylesheet>" % (XSLNS, STRUCT_NS, p))
    return sheet(body=p)


def structural_matrix(good_href="nonexistent.xsl", version="1.0", variants=ATTR_VARIANTS):
    """complete (parent, child, attribute variant) enumeration -> list of (key, stylesheet); version != 1.0 = forward-compatible mode"""
    out = []
    for parent in STRUCT_PARENTS:
        for child in XSLT_ELEMENTS:
            seen = set()
            for v in variants:
                c = xslt_element(child, v, good_href=good_href)
                if c in seen:
                    continue
                seen.add(c)
                st = structural_stylesheet(parent, c, good_href)
                if version != "1.0":
                    st = st.replace("version='1.0'", "version='%s'" % version, 1)
                out.append(("%s/%s:%s%s" % (parent, child, v, "" if version == "1.0" else "@" + version), st))
    return out


def structural_pairs(r, n, good_href="nonexistent.xsl"):
    """two children (any variants, optionally with text between them) under one parent"""
    names = list(XSLT_ELEMENTS)
    out = []
    for _ in range(n):
        parent = r.choice(STRUCT_PARENTS)
        c1, c2 = r.choice(names), r.choice(names)
        v1, v2 = r.choice(ATTR_VARIANTS), r.choice(ATTR_VARIANTS)
        mid = r.choice(["", "", "t", " ", "<l/>"])
        inner = xslt_element(c1, v1, good_href=good_href) + mid + xslt_element(c2, v2, good_href=good_href)
        if r.chance(1, 4):      # nest the second inside the first
            inner = xslt_element(c1, v1, content=xslt_element(c2, v2, good_href=good_href), good_href=good_href)
        out.append(("%s/%s:%s+%s:%s" % (parent, c1, v1, c2, v2), structural_stylesheet(parent, inner, good_href)))
    return out


# ---------------------------------------------------------------------------------------------------------------------
# error paths that must not leak (modules at import/include depth 1..3, failing document() loads, extension elements)
# and reference cycles of length 1..5 through every lazily evaluated construct

import os as _os

MODULE_ERRORS = {
    "badxpath": "<xsl:template match='zz'><xsl:value-of select='1 +'/></xsl:template>",
    "badelem": "<xsl:template match='zz'><xsl:bogus/></xsl:template><xsl:nonsense/>",
    "badattr": "<xsl:template match='zz'><xsl:text elements='*'>x</xsl:text></xsl:template>",
    "misplaced": "<xsl:template match='zz'><l><xsl:with-param name='p'/></l></xsl:template>",
    "badpattern": "<xsl:template match='//'>x</xsl:template>",
    "dupvar": "<xsl:variable name='dv' select='1'/><xsl:variable name='dv' select='2'/>",
    "malformed": None,      # not well-formed
    "runtime": "<xsl:template match='i'><xsl:message terminate='yes'>stop</xsl:message></xsl:template>",
    "runtime-throw": "<xsl:template match='i'><xsl:value-of xmlns:inj='urn:c03' select=\"inj:throw('XPathParserException')\"/></xsl:template>",
    "none": "<xsl:template match='i'>I</xsl:template>",
}


def write_module_chains(moddir):
    """files <how>_<err>_<depth>_<level>.xsl : level 1 imports/includes level 2 … the last level holds the error -> {(how, err, depth): url of level 1}"""
    _os.makedirs(moddir, exist_ok=True)
    heads = {}
    for how in ("import", "include"):
        for err, body in MODULE_ERRORS.items():
            for depth in (1, 2, 3):
                for level in range(depth, 0, -1):
                    path = _os.path.join(moddir, "%s_%s_%d_%d.xsl" % (how, err, depth, level))
                    if level == depth:
                        txt = ("<xsl:stylesheet version='1.0' xmlns:xsl='%s'><xsl:template match='zz'><b></xsl:template>" % XSLNS) if body is None else sty(body)
                    else:
                        nxt = "file://" + _os.path.join(moddir, "%s_%s_%d_%d.xsl" % (how, err, depth, level + 1))
                        txt = sty("<xsl:template match='level%d'>L</xsl:template>" % level, top="<xsl:%s href='%s'/>" % (how, nxt))
                    with open(path, "w", encoding="utf-8") as f:
                        f.write(txt)
                heads[(how, err, depth)] = "file://" + _os.path.join(moddir, "%s_%s_%d_1.xsl" % (how, err, depth))
    # modules that import / include each other in a cycle of length 1..3
    for how in ("import", "include"):
        for n in (1, 2, 3):
            for k in range(1, n + 1):
                nxt = "file://" + _os.path.join(moddir, "cycle_%s_%d_%d.xsl" % (how, n, k % n + 1))
                with open(_os.path.join(moddir, "cycle_%s_%d_%d.xsl" % (how, n, k)), "w", encoding="utf-8") as f:
                    f.write(sty("<xsl:template match='c%d'>C</xsl:template>" % k, top="<xsl:%s href='%s'/>" % (how, nxt)))
            heads[(how, "cycle", n)] = "file://" + _os.path.join(moddir, "cycle_%s_%d_1.xsl" % (how, n))
    with open(_os.path.join(moddir, "malformed.xml"), "w") as f:
        f.write("<r><i></r>")
    return heads


def error_path_cases(moddir):
    """-> list of (key, stylesheet, source, expect) ; expect in ('error', 'ok', 'any')"""
    heads = write_module_chains(moddir)
    out = []
    src = "<r><i>1</i></r>"
    for (how, err, depth), url in sorted(heads.items()):
        main = sty("<xsl:template match='/'><o><xsl:apply-templates select='r/i'/></o></xsl:template>", top="<xsl:%s href='%s'/>" % (how, url))
        out.append(("module:%s:%s:depth%d" % (how, err, depth), main, src, "ok" if err == "none" else "error"))
    bad_xml = "file://" + _os.path.join(moddir, "malformed.xml")
    for nm, expr in (("missing", "document('file:///nonexistent/c03.xml')"), ("malformed", "document('%s')" % bad_xml), ("empty-uri-of-stream", "document('')"),
                     ("nodeset-arg", "document(/r/i)"), ("two-args", "document('x.xml', /r)"), ("in-key", "key('k', 'a')")):
        top = "<xsl:key name='k' match='i' use=\"document('file:///nonexistent/c03.xml')/x\"/>" if nm == "in-key" else ""
        out.append(("document:" + nm, sty("<xsl:template match='/'><o><xsl:value-of select=\"count(%s)\"/><xsl:copy-of select=\"%s\"/></o></xsl:template>" % (expr, expr), top=top), src, "any"))
    ext = " xmlns:ext='urn:ext' extension-element-prefixes='ext'"
    for nm, body in (("no-fallback", "<ext:unknown a='1'>x</ext:unknown>"), ("fallback", "<ext:unknown><xsl:fallback>f</xsl:fallback></ext:unknown>"),
                     ("fallback-call", "<ext:unknown><xsl:fallback><xsl:call-template name='t'/></xsl:fallback></ext:unknown>"),
                     ("fallback-fails", "<ext:unknown><xsl:fallback><xsl:message terminate='yes'>x</xsl:message></xsl:fallback></ext:unknown>"),
                     ("nested", "<ext:a><ext:b><xsl:fallback>n</xsl:fallback></ext:b><xsl:fallback><ext:c/></xsl:fallback></ext:a>"),
                     ("ext-function", "<xsl:value-of select='ext:nofunction(1)'/>"), ("element-available", "<xsl:if test=\"element-available('ext:unknown')\">y</xsl:if>")):
        out.append(("extension:" + nm, sty("<xsl:template match='/'><o>%s</o></xsl:template><xsl:template name='t'>T</xsl:template>" % body, extra_attrs=ext), src, "any"))
    return out


def cycle_cases(moddir):
    """reference cycles of length 1..5 -> list of (key, stylesheet, source, expect) ; expect 'error' or the expected text output"""
    out = []
    src = "<r><i>2</i><i>1</i></r>"
    for n in range(1, 6):
        nxt = lambda k: "v%d" % (k % n + 1)
        forms = {
            "variable-select": "".join("<xsl:variable name='v%d' select='$%s'/>" % (k, nxt(k)) for k in range(1, n + 1)),
            "variable-body": "".join("<xsl:variable name='v%d'><x><xsl:value-of select='$%s'/></x></xsl:variable>" % (k, nxt(k)) for k in range(1, n + 1)),
            "param-default": "".join("<xsl:param name='v%d' select='$%s + 1'/>" % (k, nxt(k)) for k in range(1, n + 1)),
            "mixed": "".join(("<xsl:variable name='v%d' select='concat($%s, 1)'/>" if k % 2 else "<xsl:param name='v%d'><xsl:copy-of select='$%s'/></xsl:param>") % (k, nxt(k))
                             for k in range(1, n + 1)),
            "through-predicate": "".join("<xsl:variable name='v%d' select='/r/i[. = $%s]'/>" % (k, nxt(k)) for k in range(1, n + 1)),
            "through-foreach-sort": "".join("<xsl:variable name='v%d'><xsl:for-each select='/r/i'><xsl:sort select='$%s'/><xsl:value-of select='.'/></xsl:for-each></xsl:variable>" % (k, nxt(k))
                                            for k in range(1, n + 1)),
        }
        uses = {"value-of": "<xsl:value-of select='$v1'/>", "sort": "<xsl:for-each select='r/i'><xsl:sort select='$v1'/>x</xsl:for-each>",
                "last": "<xsl:value-of select='$v%d'/>" % n, "avt": "<e a='{$v1}'/>", "with-param": "<xsl:call-template name='t'><xsl:with-param name='q' select='$v1'/></xsl:call-template>"}
        for fn, top in forms.items():
            for un, use in uses.items():
                out.append(("cycle:%s:%d:%s" % (fn, n, un), sty("<xsl:template match='/'><o>%s</o></xsl:template><xsl:template name='t'><xsl:param name='q'/>T</xsl:template>" % use, top=top), src, "error"))
        # a chain of the same length WITHOUT the closing reference must work
        chain = "".join("<xsl:variable name='v%d' select='%s'/>" % (k, ("$v%d + 1" % (k + 1)) if k < n else "1") for k in range(1, n + 1))
        out.append(("chain:variable:%d" % n, sty("<xsl:template match='/'><xsl:value-of select='$v1'/></xsl:template>", top="<xsl:output method='text'/>" + chain), src, str(n)))
        # attribute sets using each other
        asets = "".join("<xsl:attribute-set name='s%d' use-attribute-sets='s%d'><xsl:attribute name='a%d'>v</xsl:attribute></xsl:attribute-set>" % (k, k % n + 1, k) for k in range(1, n + 1))
        for un, use in (("lre", "<o xsl:use-attribute-sets='s1'/>"), ("element", "<xsl:element name='o' use-attribute-sets='s1'/>"), ("copy", "<xsl:for-each select='r'><xsl:copy use-attribute-sets='s1'/></xsl:for-each>")):
            out.append(("cycle:attribute-set:%d:%s" % (n, un), sty("<xsl:template match='/'>%s</xsl:template>" % use, top=asets), src, "error"))
        # templates calling each other: no progress (must be reported) and with a decreasing counter (must finish)
        calls = "".join("<xsl:template name='t%d'><xsl:param name='k'/><xsl:choose><xsl:when test='$k &gt; 0'><xsl:call-template name='t%d'><xsl:with-param name='k' select='$k - 1'/>"
                        "</xsl:call-template></xsl:when><xsl:otherwise>done</xsl:otherwise></xsl:choose></xsl:template>" % (k, k % n + 1) for k in range(1, n + 1))
        out.append(("cycle:templates-bounded:%d" % n, sty("<xsl:template match='/'><xsl:call-template name='t1'><xsl:with-param name='k' select='57'/></xsl:call-template></xsl:template>" + calls,
                                                          top="<xsl:output method='text'/>"), src, "done"))
        noprog = "".join("<xsl:template name='t%d'><xsl:call-template name='t%d'/></xsl:template>" % (k, k % n + 1) for k in range(1, n + 1))
        out.append(("cycle:templates-unbounded:%d" % n, sty("<xsl:template match='/'><xsl:call-template name='t1'/></xsl:template>" + noprog), src, "error"))
        modes = "".join("<xsl:template match='r' mode='m%d'><xsl:apply-templates select='.' mode='m%d'/></xsl:template>" % (k, k % n + 1) for k in range(1, n + 1))
        out.append(("cycle:apply-templates-modes:%d" % n, sty("<xsl:template match='/'><xsl:apply-templates select='r' mode='m1'/></xsl:template>" + modes), src, "error"))
    return out


# ---------------------------------------------------------------------------------------------------------------------
# recursion without an end through every construct that pushes a frame: must end in a REPORTED error within the harness budget

REC_INVOKERS = ("call", "apply", "imports")
# wrapper name -> (content of the template around the invocation @B@, top-level declarations; @K@ = number of the template)
REC_WRAPPERS = {
    "plain": ("@B@", ""),
    "for-each": ("<xsl:for-each select='.'>@B@</xsl:for-each>", ""),
    "for-each-sort": ("<xsl:for-each select='.'><xsl:sort select='.'/>@B@</xsl:for-each>", ""),
    "variable-body": ("<xsl:variable name='v'>@B@</xsl:variable><xsl:copy-of select='$v'/>", ""),
    "with-param-body": ("<xsl:call-template name='id'><xsl:with-param name='p'>@B@</xsl:with-param></xsl:call-template>", ""),
    "param-default": ("<xsl:param name='q'>@B@</xsl:param><xsl:copy-of select='$q'/>", ""),
    "attribute-set": ("<e xsl:use-attribute-sets='s@K@'/>", "<xsl:attribute-set name='s@K@'><xsl:attribute name='a'>@B@</xsl:attribute></xsl:attribute-set>"),
    "fallback": ("<ext:unknown><xsl:fallback>@B@</xsl:fallback></ext:unknown>", ""),
    "sort-key-global": ("<xsl:for-each select='.|*|@*|/'><xsl:sort select='$g@K@'/>x</xsl:for-each>", "<xsl:variable name='g@K@'>@B@</xsl:variable>"),
    "global-body": ("<xsl:value-of select='$g@K@'/>", "<xsl:variable name='g@K@'>@B@</xsl:variable>"),
    "literal-element": ("<e>@B@</e>", ""),
    "xsl-element": ("<xsl:element name='e'>@B@</xsl:element>", ""),
    "copy": ("<xsl:copy>@B@</xsl:copy>", ""),
    "attribute-body": ("<e><xsl:attribute name='a'>@B@</xsl:attribute></e>", ""),
    "comment-body": ("<xsl:comment>@B@</xsl:comment>", ""),
    "pi-body": ("<xsl:processing-instruction name='p'>@B@</xsl:processing-instruction>", ""),
    "message-body": ("<xsl:message>@B@</xsl:message>", ""),
    "if": ("<xsl:if test='1'>@B@</xsl:if>", ""),
    "choose-otherwise": ("<xsl:choose><xsl:when test='0'>n</xsl:when><xsl:otherwise>@B@</xsl:otherwise></xsl:choose>", ""),
    "for-each-in-variable": ("<xsl:variable name='v'><xsl:for-each select='.'>@B@</xsl:for-each></xsl:variable><xsl:value-of select='$v'/>", ""),
}
REC_SOURCE = "<r><i/></r>"


def recursion_cycle(steps, moddir, tag, offset=0):
    """steps = [(wrapper, invoker), …]: template k does wrapper[invoker -> template k+1], the last one goes back to the first.
    -> stylesheet text (an imported module is written under moddir when an invoker is 'imports')"""
    n = len(steps)
    tops, tmpls, imported = [], [], []
    for k, (w, inv) in enumerate(steps, 1):
        nxt = k % n + 1
        if inv == "call":
            b = "<xsl:call-template name='t%d'/>" % nxt
        elif inv == "apply":
            b = "<xsl:apply-templates select='.' mode='m%d'/>" % nxt
        else:
            # xsl:apply-imports: the imported rule of the same mode goes on to the next template
            b = "<xsl:apply-imports/>"
            if not imported:
                # (rules for every mode: xsl:call-template keeps the current template rule, so xsl:apply-imports may run in any of the modes)
                imported = ["<xsl:template match='*' mode='m%d'><xsl:apply-templates select='.' mode='m%d'/></xsl:template>" % (j, j % n + 1) for j in range(1, n + 1)]
        body, top = REC_WRAPPERS[w]
        tmpls.append("<xsl:template name='t%d' match='*' mode='m%d'>%s</xsl:template>" % (k, k, body.replace("@B@", b).replace("@K@", str(k))))
        if top:
            tops.append(top.replace("@B@", b).replace("@K@", str(k)))
    imp = ""
    if imported:
        _os.makedirs(moddir, exist_ok=True)
        path = _os.path.join(moddir, "rec_%s.xsl" % tag)
        with open(path, "w") as f:
            f.write(sty("".join(imported)))
        imp = "<xsl:import href='file://%s'/>" % path
    # `offset` extra xsl:for-each around the entry: shifts the parity / phase at which the pushes of the cycle meet the depth limit
    entry = "<xsl:for-each select='.'>" * offset + "<xsl:apply-templates select='*' mode='m1'/>" + "</xsl:for-each>" * offset
    return sty("<xsl:template match='/'>" + entry + "</xsl:template>"
               "<xsl:template name='id'><xsl:param name='p'/><xsl:copy-of select='$p'/></xsl:template>" + "".join(tmpls),
               extra_attrs=" xmlns:ext='urn:ext' extension-element-prefixes='ext'", top=imp + "".join(tops))


def recursion_family(moddir, rng, thorough):
    """-> list of (key, stylesheet): every wrapper x every invoker as a cycle of one template; every ordered pair of wrappers as a cycle
    of two (quick: a sample drawn from the seed), with the invokers alternating"""
    out = []
    ws = list(REC_WRAPPERS)
    for w in ws:
        for inv in REC_INVOKERS:
            out.append(("%s/%s" % (w, inv), recursion_cycle([(w, inv)], moddir, "1_%s_%s" % (w, inv))))
    # cycles that mix counted (template) and uncounted-if-exempt (null: for-each, named template inside for-each) pushes, at every entry offset
    for w in ("for-each", "for-each-sort", "for-each-in-variable", "literal-element"):
        for inv in ("call", "apply"):
            for off in (1, 2, 3):
                out.append(("%s/%s@%d" % (w, inv, off), recursion_cycle([(w, inv)], moddir, "1_%s_%s_%d" % (w, inv, off), off)))
    for j, steps in enumerate(([("for-each", "apply"), ("plain", "call")], [("for-each", "call"), ("plain", "apply")], [("for-each", "apply"), ("for-each", "call")],
                               [("plain", "apply"), ("for-each", "apply")], [("for-each", "apply"), ("for-each", "apply"), ("plain", "apply")])):
        for off in (0, 1, 2, 3, 4, 5):
            out.append(("+".join("%s/%s" % st for st in steps) + "@%d" % off, recursion_cycle(steps, moddir, "m_%d_%d" % (j, off), off)))
    pairs = [(a, b) for a in ws for b in ws]
    if not thorough:
        pairs = [("for-each", "plain"), ("plain", "for-each"), ("for-each", "for-each")] + [pairs[rng.below(len(pairs))] for _ in range(21)]
    for j, (a, b) in enumerate(pairs):
        ia = REC_INVOKERS[(j + len(a)) % 3]
        ib = REC_INVOKERS[(j // 3 + len(b)) % 3] if thorough else REC_INVOKERS[rng.below(3)]
        out.append(("%s/%s+%s/%s" % (a, ia, b, ib), recursion_cycle([(a, ia), (b, ib)], moddir, "2_%d" % j)))
    return out


# ---------------------------------------------------------------------------------------------------------------------
# long substituted texts in error messages; URI bases x references

MESSAGE_LENGTHS = (0, 1, 1023, 1024, 1025, 3000, 70000)


NONASCII_CHARS = (("2byte", "\u00e9"), ("3byte", "\u6f22"), ("4byte", "\U00010400"), ("mixed", "a\u00e9\u6f22"))
NONASCII_LENGTHS = (10, 100, 1000, 5000)


def nonascii_message_cases():
    """error messages that quote a NON-ASCII text of the input -> list of (key, kind, stylesheet, source, needle); the needle (the first
    characters of the quoted text, or None where the text is not a legal name and the parser's own message is what comes back) must be in
    the message; kind+'/calibrate' entries carry an ASCII text and tell whether this kind of message quotes its text at all"""
    out = []
    src = "<r><i>1</i></r>"

    def trig(t):
        return {
            "message-text": sty("<xsl:template match='/'><o><xsl:message terminate='yes'>%s</xsl:message></o></xsl:template>" % t),
            "unknown-function": sty("<xsl:template match='/'><o><xsl:value-of select='%s(1)'/></o></xsl:template>" % t),
            "undefined-variable": sty("<xsl:template match='/'><o><xsl:value-of select='$%s'/></o></xsl:template>" % t),
            "unknown-xsl-element": sty("<xsl:template match='/'><o><xsl:%s/></o></xsl:template>" % t),
            "unknown-template": sty("<xsl:template match='/'><o><xsl:call-template name='%s'/></o></xsl:template>" % t),
            "bad-qname": sty("<xsl:template match='/'><o><xsl:call-template name='%s:%s:x'/></o></xsl:template>" % (t, t)),
            "bad-attribute-name": sty("<xsl:template match='/'><o><xsl:attribute name='%s %s'>v</xsl:attribute></o></xsl:template>" % (t, t)),
            "include-missing": sty("<xsl:template match='/'><o/></xsl:template>", top="<xsl:include href='%s.xsl'/>" % t),
            "document-missing": sty("<xsl:template match='/'><o><xsl:copy-of select=\"document('%s.xml')\"/></o></xsl:template>" % t),
            "unknown-key": sty("<xsl:template match='/'><o><xsl:value-of select=\"key('%s', 1)\"/></o></xsl:template>" % t),
            "unknown-extension-element": sty("<xsl:template match='/'><o><ext:%s/></o></xsl:template>" % t, extra_attrs=" xmlns:ext='urn:ext' extension-element-prefixes='ext'"),
        }
    for kind, s_ in trig("nnnnnnnnnn").items():
        out.append(("%s/calibrate" % kind, kind, s_, src, "nnnnnn"))
    for cn, ch in NONASCII_CHARS:
        for n in NONASCII_LENGTHS:
            t = (ch * n)[:n] if cn == "mixed" else ch * n
            for kind, s_ in trig(t).items():
                out.append(("%s/%s/%d" % (kind, cn, n), kind, s_, src, t[:4]))
    return out


def long_message_cases():
    """inputs whose error / warning message quotes a text taken from the input, for each length of that text -> list of (key, stylesheet, source)"""
    out = []
    src = "<r><i>1</i></r>"
    for n in MESSAGE_LENGTHS:
        t = ("n" * n) if n else ""
        q = t if t else "x"          # where an empty token would change the construct
        ns = " xmlns:ext='urn:ext'"
        trig = {
            "unknown-function": sty("<xsl:template match='/'><o><xsl:value-of select='%s(1)'/></o></xsl:template>" % q),
            "undeclared-prefix-xpath": sty("<xsl:template match='/'><o><xsl:value-of select='%s:x'/></o></xsl:template>" % q),
            "undefined-variable": sty("<xsl:template match='/'><o><xsl:value-of select='$%s'/></o></xsl:template>" % q),
            "expected-but-found": sty("<xsl:template match='/'><o><xsl:value-of select=\"concat('a' %s)\"/></o></xsl:template>" % q),
            "expected-but-found-2": sty("<xsl:template match='/'><o><xsl:value-of select=\"%s[1 %s\"/></o></xsl:template>" % (q, q)),
            "extra-tokens": sty("<xsl:template match='/'><o><xsl:value-of select='1 %s %s'/></o></xsl:template>" % (q, q)),
            "unknown-xsl-element": sty("<xsl:template match='/'><o><xsl:%s/></o></xsl:template>" % q),
            "illegal-attribute": sty("<xsl:template match='/'><o><xsl:if test='1' %s='v'>x</xsl:if></o></xsl:template>" % q),
            "illegal-attribute-value": sty("<xsl:template match='/'><o/></xsl:template>", top="<xsl:output method='%s'/>" % t),
            "unknown-template": sty("<xsl:template match='/'><o><xsl:call-template name='%s'/></o></xsl:template>" % q),
            "unknown-attribute-set": sty("<xsl:template match='/'><o xsl:use-attribute-sets='%s'/></xsl:template>" % q),
            "include-missing": sty("<xsl:template match='/'><o/></xsl:template>", top="<xsl:include href='%s.xsl'/>" % t),
            "import-missing": sty("<xsl:template match='/'><o/></xsl:template>", top="<xsl:import href='nodir/%s'/>" % t),
            "document-missing": sty("<xsl:template match='/'><o><xsl:copy-of select=\"document('%s.xml')\"/></o></xsl:template>" % t),
            "unknown-key": sty("<xsl:template match='/'><o><xsl:value-of select=\"key('%s', 1)\"/></o></xsl:template>" % q),
            "unknown-decimal-format": sty("<xsl:template match='/'><o><xsl:value-of select=\"format-number(1, '#', '%s')\"/></o></xsl:template>" % q),
            "bad-sort-data-type": sty("<xsl:template match='/'><o><xsl:for-each select='r/i'><xsl:sort data-type='%s'/>x</xsl:for-each></o></xsl:template>" % t),
            "bad-number-level": sty("<xsl:template match='/'><o><xsl:number level='%s'/></o></xsl:template>" % t),
            "bad-element-name-avt": sty("<xsl:template match='/'><o><xsl:element name='{\"%s:x\"}'/></o></xsl:template>" % q),
            "bad-attribute-name": sty("<xsl:template match='/'><o><xsl:attribute name='%s %s'>v</xsl:attribute></o></xsl:template>" % (q, q)),
            "message-text": sty("<xsl:template match='/'><o><xsl:message terminate='yes'>%s</xsl:message></o></xsl:template>" % t),
            "unknown-encoding": sty("<xsl:template match='/'><o/></xsl:template>", top="<xsl:output encoding='%s'/>" % t),
            "system-property": sty("<xsl:template match='/'><o><xsl:value-of select=\"system-property('%s:x')\"/></o></xsl:template>" % q),
            "unknown-extension-function": sty("<xsl:template match='/'><o><xsl:value-of select='ext:%s(1)'/></o></xsl:template>" % q, extra_attrs=ns),
            "unknown-extension-element": sty("<xsl:template match='/'><o><ext:%s/></o></xsl:template>" % q, extra_attrs=ns + " extension-element-prefixes='ext'"),
            "mode-undeclared-prefix": sty("<xsl:template match='/'><o><xsl:apply-templates mode='%s:m'/></o></xsl:template>" % q),
            "namespace-alias-prefix": sty("<xsl:template match='/'><o/></xsl:template>", top="<xsl:namespace-alias stylesheet-prefix='%s' result-prefix='%s'/>" % (q, q)),
            "exclude-result-prefixes": sty("<xsl:template match='/'><o/></xsl:template>", extra_attrs=" exclude-result-prefixes='%s'" % q),
            "bad-pattern": sty("<xsl:template match='%s('>x</xsl:template>" % q),
            "duplicate-variable": sty("<xsl:template match='/'><o/></xsl:template>", top="<xsl:variable name='%s' select='1'/><xsl:variable name='%s' select='2'/>" % (q, q)),
            "duplicate-template": sty("<xsl:template match='/'><o/></xsl:template><xsl:template name='%s'/><xsl:template name='%s'/>" % (q, q)),
            "undeclared-xml-prefix": sty("<xsl:template match='/'><%s:o/></xsl:template>" % q),
            "literal-not-terminated": sty("<xsl:template match='/'><o><xsl:value-of select=\"'%s\"/></o></xsl:template>" % t),
        }
        for nm, st in trig.items():
            out.append(("%s:%d" % (nm, n), st, src))
    return out


URI_BASES = ["", "file:main.xsl", "app:main.xsl", "http://host", "http://host/", "http://a/b/c/d;p?q", "file:///tmp/x/main.xsl", "?q", "#f", "mailto:x", "a/b", "/a/b",
             "http://a/b/c/d;p?q#frag", "HTTP://a/b/", "//auth/p", "file:", "x:", ":", "/", "file:/", "http://host?q", "http://host#f", "urn:isbn:1", "file:..", "file:../x", "../base/x"]
URI_REFS = ["..", "../", "../../x", "./", "", "?q", "#f", "//auth", "/abs", "../../../../g", "g", "./g", "g/", "g?y", "g#s", "g;x", "../g", "../..", "../../", "./../g", "g/./h", "g/../h",
            "http:g", "HTTP:g", "file:../x", ".", "...", "a/./b/../c", "/./g", "/../g", "g.", "..g", ".g", "g..", "x/..", "x/../", "../x/../../y/./z/..", "http://other/x",
            "../" * 40 + "z", "./" * 40, "a/" * 20 + "../" * 25 + "b", "..?q", "../#f", "../../..", ".././../.", "%2e%2e/x", "..//x", "/..", "//", "///", "x/../../", ".../", "a/b/../../../c"]


def uri_stylesheets():
    """references through xsl:include / xsl:import / document() against base URIs given as system ids of stream inputs -> list of (key, stylesheet, source, stylesheet system id, source system id)"""
    out = []
    src = "<r><i>1</i></r>"
    refs = ["../x.xsl", "..", "../", "../../x/y.xsl", "./x.xsl", "", "?q", "#f", "//auth/x.xsl", "/abs.xsl", "../" * 12 + "z.xsl"]
    bases = ["", "file:main.xsl", "app:main.xsl", "http://host", "file:", "x:", "main.xsl", "file:///nonexistent/dir/main.xsl", "?q", "#f", "mailto:x"]
    for b in bases:
        for ref in refs:
            out.append(("include:%s|%s" % (b, ref), sty("<xsl:template match='/'><o/></xsl:template>", top="<xsl:include href='%s'/>" % ref), src, b, b))
            out.append(("import:%s|%s" % (b, ref), sty("<xsl:template match='/'><o/></xsl:template>", top="<xsl:import href='%s'/>" % ref), src, b, b))
            out.append(("document:%s|%s" % (b, ref), sty("<xsl:template match='/'><o><xsl:copy-of select=\"document('%s')\"/><xsl:copy-of select=\"document('%s', /)\"/></o></xsl:template>" % (ref, ref)), src, b, b))
    return out
