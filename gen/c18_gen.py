"""C18 generators: IEEE doubles by class and strings around the XPath Number grammar.
All randomness comes from the Rng passed in (seeded by VERIF_SEED)."""
import struct
from fractions import Fraction


def bits_of(x):
    return struct.unpack("<Q", struct.pack("<d", x))[0]


def of_bits(b):
    return struct.unpack("<d", struct.pack("<Q", b & 0xFFFFFFFFFFFFFFFF))[0]


def hex16(b):
    return "%016x" % (b & 0xFFFFFFFFFFFFFFFF)


def units(s):
    return "".join("%04x" % ord(c) for c in s) if s else "-"


# ---- corpus: boundary classes named in the property + DESIGN.md section 6 items 10-12 (runs first)
CORPUS_DOUBLES = [
    0.0, -0.0, float("inf"), float("-inf"), float("nan"), 1.0, -1.0, 0.5, -0.5, 1.5, -1.5, 2.5, -2.5, 0.1, -0.1,
    123.012345, 1e21, 1e22, 1e23, 123456789012345680.0, 0.000001, 1e-7, 1e-10, 1e-11, 1e-17, 1e-18, 1e-19, 1e-20,
    1e-21, 1.234567890123456789e-21, 1e-34, 1e-35, 1e-36, 1e-40, -1e-40, 5e-324, -5e-324, 2.2250738585072014e-308,
    0.49999999999999994, -0.49999999999999994, 0.5000000000000001, 4503599627370496.0, 4503599627370497.0,
    -4503599627370497.0, 4503599627370495.5, 9007199254740992.0, 9007199254740993.0, 9007199254740994.0,
    9223372036854775808.0, -9223372036854775808.0, 9223372036854774784.0, -9223372036854777856.0,
    9223372036854777856.0, 1.8446744073709552e19, -0.3, 0.3, -0.0001, 2.0 ** 62, -2.0 ** 62, 1e15 + 0.3,
    1e87, 9.99e87, 1e88, -9.99e87, -1e88, 9.99e88, 1e89, 1e90, -1e90, 1e100, 1e200, -1e300, 1.7976931348623157e308,
    -1.7976931348623157e308, 3.0000000000000004, 0.30000000000000004, 1 / 3.0, 2 / 3.0, 100.0, 1e10, 12345678.9,
    9.999999999995, 9.9999999999949996, 0.99999999999, 0.999999999999999,
]

CORPUS_STRINGS = [
    "", " ", "0", "-0", " -0 ", "-0.0", "-00000000", "-000000000", "1", "-1", "12", "1.", ".1", ".", "-", "-.", "-.5",
    "1.5", " 1.5 ", "\t\n\r 42 \r\n\t", "1 2", "1 .", "- 1", "--1", "+1", "1e3", "1E3", "0x10", "1.2.3", "1..2", "1-",
    "-1-", "1.-2", "123456789", "1234567890", "999999999", " 12345678", "12345678 ", "-99999999", "-999999999",
    "0.1", "0.3", "0.30000000000000004", "9007199254740993", "9007199254740992.5", "9007199254740993.0000000000000001",
    "179769313486231570" + "0" * 291, "179769313486231580" + "0" * 291, "1" + "0" * 400, "." + "0" * 330 + "1",
    "0." + "0" * 323 + "24703282292062327208", "0." + "0" * 323 + "24703282292062328",
    "4.9e-324", "NaN", "Infinity", "-Infinity", "inf", "nan", "1,5", " 1", "1 ", "١", "１", "1　",
    "0.49999999999999994", "1" * 199, "1" * 200, "1" * 201, " " * 195 + "12.5", "12.5" + " " * 250, "-" + "9" * 9,
    "9999999999999999999", "9223372036854775808", "-9223372036854775809", "99999999999999999999", "123456789012345678",
    "2.2250738585072011e-308", "0.000000000000000000000000000000000001", "00000000000000000001", "1\u00002",
]


def gen_double(r):
    """returns (bits, class)"""
    k = r.weighted([("uniform-exp", 20), ("pow2", 6), ("pow10", 8), ("near-2^53", 4), ("near-2^63", 4), ("subnormal", 3),
                    ("tie.5", 8), ("small-int", 5), ("decimal", 14), ("mid", 10), ("tiny", 6), ("huge", 5), ("near-int", 6),
                    ("special", 1)])
    sign = r.below(2) << 63
    if k == "uniform-exp":
        return sign | (r.below(2047) << 52) | r.below(1 << 52), k
    if k == "pow2":
        e = r.range(-1074, 1023)
        b = bits_of(2.0 ** e) + r.range(-2, 2)
        return sign | (b & 0x7FFFFFFFFFFFFFFF), k
    if k == "pow10":
        e = r.range(-40, 308)
        b = bits_of(float("1e%d" % e)) + r.range(-2, 2)
        return sign | (b & 0x7FFFFFFFFFFFFFFF), k
    if k == "near-2^53":
        b = bits_of(2.0 ** r.choice([52, 53, 54])) + r.range(-40, 40)
        return sign | b, k
    if k == "near-2^63":
        b = bits_of(2.0 ** r.choice([62, 63, 64])) + r.range(-40, 40)
        return sign | b, k
    if k == "subnormal":
        return sign | r.below(1 << r.range(1, 52)), k
    if k == "tie.5":
        n = r.choice([r.below(10), r.below(1000), r.below(1 << 30), (1 << r.range(30, 52)) - r.below(8), (1 << 52) - 1 - r.below(64)])
        b = bits_of(n + 0.5) + r.choice([0, 0, 0, -1, 1])
        return sign | (b & 0x7FFFFFFFFFFFFFFF), k
    if k == "small-int":
        return sign | bits_of(float(r.choice([r.below(100), r.below(10 ** 6), r.below(10 ** 15), 10 ** r.range(0, 22)]))), k
    if k == "decimal":
        d = r.range(1, 17)
        n = r.below(10 ** d)
        s = r.range(0, 25)
        return sign | bits_of(float(Fraction(n, 10 ** s))), k
    if k == "mid":
        e = r.range(-60, 70)
        return sign | bits_of((1 + r.below(1 << 52) / float(1 << 52)) * 2.0 ** e), k
    if k == "tiny":
        e = r.range(-140, -50)
        return sign | bits_of((1 + r.below(1 << 52) / float(1 << 52)) * 2.0 ** e), k
    if k == "huge":
        e = r.range(64, 1023)
        return sign | bits_of((1 + r.below(1 << 52) / float(1 << 52)) * 2.0 ** e), k
    if k == "near-int":
        n = r.choice([r.below(100), r.below(10 ** 9), 1 << r.range(1, 50)])
        b = bits_of(float(n) if n else 1.0) + r.range(-3, 3)
        return sign | (b & 0x7FFFFFFFFFFFFFFF), k
    return r.choice([0, 1 << 63, 0x7FF0000000000000, 0xFFF0000000000000, 0x7FF8000000000000, 0x7FF0000000000001,
                     0xFFF8000000000001]), k


WS = [" ", "\t", "\n", "\r"]
JUNK = ["+", "e", "E", "x", ",", " ", "١", "１", "　", "a", "_", "'", "−"]


def digits(r, n):
    return "".join(r.choice("0123456789") for _ in range(n))


def gen_string(r):
    """returns (string, class)"""
    k = r.weighted([("valid", 55), ("near-valid", 25), ("alphabet", 20)])
    if k == "valid" or k == "near-valid":
        lead = "".join(r.choice(WS) for _ in range(r.weighted([(0, 6), (1, 2), (r.range(2, 4), 1), (r.range(150, 260), 1) if r.chance(1, 20) else (0, 1)])))
        trail = "".join(r.choice(WS) for _ in range(r.weighted([(0, 6), (1, 2), (r.range(2, 4), 1)])))
        sign = "-" if r.chance(1, 3) else ""
        form = r.weighted([("int", 4), ("int.", 1), ("int.frac", 5), (".frac", 2)])
        ni = r.weighted([(1, 3), (r.range(1, 9), 6), (r.range(8, 11), 4), (r.range(10, 25), 3), (r.range(25, 320), 1), (r.range(180, 210), 1)])
        nf = r.weighted([(1, 3), (r.range(1, 8), 5), (r.range(8, 20), 3), (r.range(20, 60), 1), (r.range(300, 360), 1)])
        ip = digits(r, ni)
        if r.chance(1, 6):
            ip = "0" * ni
        if r.chance(1, 8):
            ip = "0" * r.range(1, 5) + ip
        fp = digits(r, nf)
        if r.chance(1, 5):
            fp = "0" * r.range(1, 30) + fp
        body = {"int": ip, "int.": ip + ".", "int.frac": ip + "." + fp, ".frac": "." + fp}[form]
        s = lead + sign + body + trail
        if k == "valid":
            return s, "valid-" + form
        # one edit: insert / delete / replace / duplicate a structural character
        pos = r.range(0, len(s))
        edit = r.below(5)
        if edit == 0:
            s = s[:pos] + r.choice(JUNK + ["-", ".", " "]) + s[pos:]
        elif edit == 1 and s:
            pos = min(pos, len(s) - 1)
            s = s[:pos] + s[pos + 1:]
        elif edit == 2 and s:
            pos = min(pos, len(s) - 1)
            s = s[:pos] + r.choice(JUNK + ["-", ".", " ", "5"]) + s[pos + 1:]
        elif edit == 3:
            s = s[:pos] + r.choice([".", "-", " "]) + s[pos:]
        else:
            s = s.replace(".", r.choice(["..", ",", ". ", " ."]), 1) if "." in s else s + r.choice(["e5", "E-3", "."])
        return s, "near-valid"
    n = r.weighted([(r.range(0, 4), 3), (r.range(4, 12), 4), (r.range(12, 30), 1)])
    alpha = list("0123456789") + [".", ".", "-", "-", "+", "e", "E", " ", " ", "\t", "\n", "x"]
    return "".join(r.choice(alpha) for _ in range(n)), "alphabet"
