"""C20 generators and python reference simulators.

A *sequence* is a list of request lines of one container kind (vec | map | set | deq | lst | str), replayed
after a `reset`.  The reference simulators (`*Ref.step`) know only the std:: contract: they decide whether a
request is inside the standard's preconditions (generation and shrinking never leave them) and attach a
*tag* to each request — the operation class used in the key of a failing case, e.g. `resize-multi` for a
deque resize by more than one element.  All randomness comes from the `Rng` handed in.
"""

NV, NM, NS, ND, NL, NSLOT, NSTR = 4, 4, 2, 4, 3, 4, 4


class VecRef:
    def __init__(self):
        self.v = [[] for _ in range(NV)]

    def step(self, t):
        k = t[1]
        try:
            a = [int(x) for x in t[2:]]
        except ValueError:
            return None
        if not a or not (0 <= a[0] < NV):
            return None
        i = a[0]; l = self.v[i]; ref = self.v
        n = len(a)
        if k in ("new", "clear") and n == 1:
            del l[:]
        elif k == "newcap" and n == 2:
            del l[:]
        elif k == "push" and n == 2:
            l.append(a[1])
        elif k == "pop" and n == 1:
            if not l:
                return None
            l.pop()
        elif k == "ins1" and n == 3:
            if a[1] > len(l):
                return None
            l.insert(a[1], a[2])
        elif k == "insn" and n == 4:
            if a[1] > len(l):
                return None
            l[a[1]:a[1]] = [a[3]] * a[2]
        elif k == "insr" and n == 5:
            if not (0 <= a[2] < NV) or a[2] == i:
                return None
            s = ref[a[2]]
            if a[1] > len(l) or not (a[3] <= a[4] <= len(s)):
                return None
            l[a[1]:a[1]] = s[a[3]:a[4]]
        elif k == "erase" and n == 3:
            if not (a[1] <= a[2] <= len(l)):
                return None
            del l[a[1]:a[2]]
        elif k == "erase1" and n == 2:
            if not (a[1] < len(l)):
                return None
            del l[a[1]]
        elif k == "resize" and n == 3:
            if a[1] < len(l):
                del l[a[1]:]
            else:
                l.extend([a[2]] * (a[1] - len(l)))
        elif k == "reserve" and n == 2:
            pass
        elif k == "assign" and n == 4:
            if not (0 <= a[1] < NV) or a[1] == i:
                return None
            s = ref[a[1]]
            if not (a[2] <= a[3] <= len(s)):
                return None
            l[:] = s[a[2]:a[3]]
        elif k == "copy" and n == 2:
            if not (0 <= a[1] < NV):
                return None
            l[:] = list(ref[a[1]])
        elif k == "swap" and n == 2:
            if not (0 <= a[1] < NV):
                return None
            ref[i], ref[a[1]] = ref[a[1]], ref[i]
        elif k == "insself" and n == 4:
            if a[1] > len(l) or a[3] >= len(l):
                return None
            l[a[1]:a[1]] = [l[a[3]]] * a[2]
        elif k == "resizeself" and n == 3:
            if a[2] >= len(l):
                return None
            x = l[a[2]]
            if a[1] < len(l):
                del l[a[1]:]
            else:
                l.extend([x] * (a[1] - len(l)))
        elif k == "pushself" and n == 2:
            if a[1] >= len(l):
                return None
            l.append(l[a[1]])
        else:
            return None
        return k


class MapRef:
    def __init__(self):
        self.m = [[] for _ in range(NM)]   # insertion-ordered [k, v]

    def step(self, t):
        k = t[1]
        try:
            a = [int(x) for x in t[2:]]
        except ValueError:
            return None
        if not a or not (0 <= a[0] < NM) or any(x < 0 for x in a):
            return None
        i = a[0]; l = self.m[i]; n = len(a)
        if k == "new" and n == 5:
            if a[2] not in (1, 2, 4, 8) or a[1] < 1 or a[3] < 1 or a[1] > 4 * a[2]:
                return None
            del l[:]
        elif k == "ins" and n == 3:
            if not any(e[0] == a[1] for e in l):
                l.append([a[1], a[2]])
        elif k == "set" and n == 3:
            for e in l:
                if e[0] == a[1]:
                    e[1] = a[2]
                    break
            else:
                l.append([a[1], a[2]])
        elif k == "find" and n == 2:
            pass
        elif k == "erase" and n == 2:
            l[:] = [e for e in l if e[0] != a[1]]
        elif k == "clear" and n == 1:
            del l[:]
        elif k in ("copy", "copyctor") and n == 2:
            if not (0 <= a[1] < NM):
                return None
            l[:] = [list(e) for e in self.m[a[1]]]
        elif k == "swap" and n == 2:
            if not (0 <= a[1] < NM):
                return None
            self.m[i], self.m[a[1]] = self.m[a[1]], self.m[i]
        else:
            return None
        return k


class SetRef:
    def step(self, t):
        k = t[1]
        try:
            a = [int(x) for x in t[2:]]
        except ValueError:
            return None
        if not a or not (0 <= a[0] < NS) or any(x < 0 for x in a):
            return None
        n = len(a)
        if (k in ("new", "clear") and n == 1) or (k in ("ins", "count", "erase") and n == 2):
            return k
        if k == "copyctor" and n == 2 and 0 <= a[1] < NS:
            return k
        return None


class DeqRef:
    def __init__(self):
        self.d = [[] for _ in range(ND)]
        self.bs = [10] * ND

    def step(self, t):
        k = t[1]
        try:
            a = [int(x) for x in t[2:]]
        except ValueError:
            return None
        if not a or not (0 <= a[0] < ND) or any(x < 0 for x in a[:1]):
            return None
        i = a[0]; l = self.d[i]; n = len(a)
        tag = k
        if k == "new" and n == 3:
            if a[1] < 1 or a[2] < 0:
                return None
            self.bs[i] = a[1]
            l[:] = [0] * a[2]
        elif k == "push" and n == 2:
            l.append(a[1])
        elif k == "pop" and n == 1:
            if not l:
                return None
            l.pop()
        elif k == "resize" and n == 2:
            if a[1] < 0:
                return None
            if abs(a[1] - len(l)) >= 2:
                tag = "resize-multi"
            if a[1] < len(l):
                del l[a[1]:]
            else:
                l.extend([0] * (a[1] - len(l)))
        elif k == "clear" and n == 1:
            del l[:]
        elif k == "copy" and n == 2:
            if not (0 <= a[1] < ND):
                return None
            l[:] = list(self.d[a[1]])
        elif k == "copyctor" and n == 2:
            if not (0 <= a[1] < ND):
                return None
            l[:] = list(self.d[a[1]])
            self.bs[i] = self.bs[a[1]]
        elif k == "swap" and n == 2:
            if not (0 <= a[1] < ND):
                return None
            if self.bs[i] != self.bs[a[1]]:
                tag = "swap-diffbs"      # the block size is a construction parameter and is not exchanged
            self.d[i], self.d[a[1]] = self.d[a[1]], self.d[i]
        else:
            return None
        return tag


class LstRef:
    def __init__(self):
        self.l = [[] for _ in range(NL)]     # [uid, value]
        self.slots = [None] * NSLOT          # uid
        self.uid = 0

    def where(self, uid):
        for li, l in enumerate(self.l):
            for e in l:
                if e[0] == uid:
                    return li
        return None

    def drop(self, uids):
        for s in range(NSLOT):
            if self.slots[s] in uids:
                self.slots[s] = None

    def step(self, t):
        k = t[1]
        try:
            a = [int(x) for x in t[2:]]
        except ValueError:
            return None
        if not a or any(x < 0 for x in a[:1]):
            return None
        n = len(a)
        if k in ("save", "deref"):
            if n < 2 or not (0 <= a[0] < NSLOT) or not (0 <= a[1] < NL):
                return None
            l = self.l[a[1]]
            if k == "save":
                if n != 3 or not (0 <= a[2] < len(l)):
                    return None
                self.slots[a[0]] = l[a[2]][0]
            else:
                if n != 2 or self.slots[a[0]] is None or self.where(self.slots[a[0]]) != a[1]:
                    return None
            return k
        if not (0 <= a[0] < NL):
            return None
        i = a[0]; l = self.l[i]

        def fresh(v):
            self.uid += 1
            return [self.uid, v]
        if k == "new" and n == 1:
            self.drop([e[0] for e in l]); del l[:]
        elif k == "pushb" and n == 2:
            l.append(fresh(a[1]))
        elif k == "pushf" and n == 2:
            l.insert(0, fresh(a[1]))
        elif k == "popb" and n == 1:
            if not l:
                return None
            self.drop([l[-1][0]]); l.pop()
        elif k == "popf" and n == 1:
            if not l:
                return None
            self.drop([l[0][0]]); l.pop(0)
        elif k == "insat" and n == 3:
            if not (0 <= a[1] <= len(l)):
                return None
            l.insert(a[1], fresh(a[2]))
        elif k == "eraseat" and n == 2:
            if not (0 <= a[1] < len(l)):
                return None
            self.drop([l[a[1]][0]]); del l[a[1]]
        elif k == "insit" and n == 3:
            if not (0 <= a[1] < NSLOT) or self.slots[a[1]] is None or self.where(self.slots[a[1]]) != i:
                return None
            idx = [e[0] for e in l].index(self.slots[a[1]])
            l.insert(idx, fresh(a[2]))
        elif k == "eraseit" and n == 2:
            if not (0 <= a[1] < NSLOT) or self.slots[a[1]] is None or self.where(self.slots[a[1]]) != i:
                return None
            u = self.slots[a[1]]
            idx = [e[0] for e in l].index(u)
            del l[idx]; self.drop([u])
        elif k == "splice" and n == 4:
            if not (0 <= a[2] < NL):
                return None
            src = self.l[a[2]]
            if not (0 <= a[1] <= len(l)) or not (0 <= a[3] < len(src)):
                return None
            if a[2] == i:
                posuid = l[a[1]][0] if a[1] < len(l) else None
                e = l[a[3]]
                if posuid == e[0]:
                    return k
                del l[a[3]]
                idx = len(l) if posuid is None else [x[0] for x in l].index(posuid)
                l.insert(idx, e)
            else:
                e = src.pop(a[3])
                l.insert(a[1], e)
        elif k == "splicer" and n == 5:
            if not (0 <= a[2] < NL) or a[2] == i:
                return None
            src = self.l[a[2]]
            if not (0 <= a[1] <= len(l)) or not (0 <= a[3] <= a[4] <= len(src)):
                return None
            seg = src[a[3]:a[4]]
            del src[a[3]:a[4]]
            l[a[1]:a[1]] = seg
        elif k == "clear" and n == 1:
            self.drop([e[0] for e in l]); del l[:]
        elif k == "swap" and n == 2:
            if not (0 <= a[1] < NL):
                return None
            self.l[i], self.l[a[1]] = self.l[a[1]], self.l[i]
        elif k == "show" and n == 1:
            pass
        else:
            return None
        return k


def parse_units(u):
    if u == "-":
        return []
    try:
        xs = [int(x) for x in u.split(".")]
    except ValueError:
        return None
    if any(not (1 <= x <= 65535) for x in xs):
        return None
    return xs


def parse_units0(u):
    if u == "-":
        return []
    try:
        xs = [int(x) for x in u.split(".")]
    except ValueError:
        return None
    if any(not (0 <= x <= 65535) for x in xs):
        return None
    return xs


def zstr(xs):
    out = []
    for x in xs:
        if x == 0:
            break
        out.append(x)
    return out


class CmpRef:
    def step(self, t):
        k = t[1]; a = t[2:]
        if k in ("compare",) and len(a) == 2:
            return k if parse_units(a[0]) is not None and parse_units0(a[1]) is not None else None
        if k in ("comparestr", "equals", "eqi", "cmpi") and len(a) == 2:
            return k if parse_units(a[0]) is not None and parse_units(a[1]) is not None else None
        if k == "comparesub" and len(a) == 5:
            x = parse_units(a[0]); y = parse_units0(a[3])
            if x is None or y is None or not a[1].isdigit() or not a[2].isdigit():
                return None
            p1, c1 = int(a[1]), int(a[2])
            if p1 + c1 > len(x):
                return None
            if a[4] == "npos":
                return "comparesub-npos"
            if not a[4].isdigit() or int(a[4]) > len(y):
                return None
            return k
        return None


def gen_cmp(r, maxops):
    ref = CmpRef(); ops = []
    nops = r.range(2, maxops)

    def word(n, alpha):
        return [r.choice(alpha) for _ in range(n)]

    def us(xs):
        return ".".join(str(x) for x in xs) or "-"
    while len(ops) < nops:
        alpha = r.choice([[65, 66, 97, 98], [65, 97, 90, 122, 64, 91, 96, 123], [1, 2, 3], [65, 97, 0x100, 0xFFFF, 0x8000]])
        x = word(r.weighted([(0, 1), (1, 2), (2, 3), (3, 3), (r.range(4, 8), 1)]), alpha)
        m = r.below(4)
        if m == 0:
            y = list(x)
        elif m == 1:
            y = list(x[:r.below(len(x) + 1)])
        elif m == 2:
            y = [c ^ 32 if (65 <= c <= 90 or 97 <= c <= 122) and r.chance(1, 2) else c for c in x]
        else:
            y = word(r.range(0, 5), alpha)
        if y and r.chance(1, 3):
            y[r.below(len(y))] = r.choice(alpha)
        k = r.weighted([("compare", 4), ("comparestr", 3), ("comparesub", 4), ("equals", 3), ("eqi", 4), ("cmpi", 4)])
        if k == "compare":
            yy = list(y)
            if r.chance(1, 5):
                yy.insert(r.below(len(yy) + 1), 0)       # the buffer continues after a terminator
            line = "cmp compare %s %s" % (us(x), us(yy))
        elif k == "comparesub":
            p1 = r.range(0, len(x)); c1 = r.range(0, len(x) - p1)
            if r.chance(1, 6):
                line = "cmp comparesub %s %d %d %s npos" % (us(x), p1, c1, us(y))
            else:
                line = "cmp comparesub %s %d %d %s %d" % (us(x), p1, c1, us(y), r.range(0, len(y)))
        else:
            line = "cmp %s %s %s" % (k, us(x), us(y))
        _emit(ref, ops, line)
    return ops


class StrRef:
    """chars + whether m_data currently holds a buffer (needed only to *tag* the resize defect class)"""
    def __init__(self):
        self.s = [[] for _ in range(NSTR)]
        self.buf = [False] * NSTR

    def step(self, t):
        k = t[1]
        a = t[2:]
        n = len(a)

        def num(x, allow_npos=False):
            if allow_npos and x == "npos":
                return "npos"
            try:
                v = int(x)
            except ValueError:
                return None
            return v if v >= 0 else None
        if n < 1:
            return None
        i = num(a[0])
        if i is None or i >= NSTR:
            return None
        s = self.s[i]
        tag = k
        if k == "new" and n == 1:
            del s[:]; self.buf[i] = False
        elif k == "app" and n == 2:
            xs = parse_units(a[1])
            if xs is None:
                return None
            if xs:
                s.extend(xs); self.buf[i] = True
        elif k == "ctor" and n == 2:
            xs = parse_units0(a[1])
            if xs is None or any(x == 0 for x in xs[1:]):
                return None
            if xs and xs[0] == 0:
                tag = "ctor-leading-nul"
            s[:] = xs; self.buf[i] = len(xs) > 0
        elif k in ("appz", "assignz") and n == 2:
            xs = parse_units0(a[1])
            if xs is None:
                return None
            z = zstr(xs)
            if k == "assignz":
                del s[:]; self.buf[i] = False
            if z:
                s.extend(z); self.buf[i] = True
        elif k == "insz" and n == 3:
            p = num(a[1]); xs = parse_units0(a[2])
            if p is None or xs is None or p > len(s) or (not self.buf[i] and p != 0):
                return None
            z = zstr(xs)
            s[p:p] = z
            if z:
                self.buf[i] = True
        elif k == "assignp" and n == 3:
            xs = parse_units0(a[1]); c = num(a[2])
            if xs is None or c is None or c > len(xs) or any(x == 0 for x in xs[:c]):
                return None
            s[:] = xs[:c]; self.buf[i] = c > 0
        elif k == "appstr" and n == 2:
            j = num(a[1])
            if j is None or j >= NSTR:
                return None
            xs = list(self.s[j])
            if xs:
                s.extend(xs); self.buf[i] = True
        elif k == "appsub" and n == 4:
            j = num(a[1]); p = num(a[2]); c = num(a[3], True)
            if j is None or j >= NSTR or j == i or p is None or c is None:
                return None
            src = self.s[j]
            if not (p < len(src)) or (c != "npos" and p + c > len(src)):
                return None
            xs = src[p:] if c == "npos" else src[p:p + c]
            if c == "npos" and self.buf[i]:
                tag = "appsub-npos"
            if xs:
                s.extend(xs); self.buf[i] = True
        elif k == "appn" and n == 3:
            m = num(a[1]); c = num(a[2])
            if m is None or c is None or not (1 <= c <= 65535):
                return None
            s.extend([c] * m); self.buf[i] = True
        elif k == "push" and n == 2:
            c = num(a[1])
            if c is None or not (1 <= c <= 65535):
                return None
            s.append(c); self.buf[i] = True
        elif k == "ins" and n == 3:
            p = num(a[1]); xs = parse_units(a[2])
            if p is None or xs is None or p > len(s):
                return None
            if not self.buf[i] and p != 0:
                return None
            s[p:p] = xs
            if xs:
                self.buf[i] = True
        elif k == "insn" and n == 4:
            p = num(a[1]); m = num(a[2]); c = num(a[3])
            if p is None or m is None or c is None or p > len(s) or not (1 <= c <= 65535):
                return None
            s[p:p] = [c] * m; self.buf[i] = True
        elif k == "erase" and n == 3:
            st = num(a[1]); c = num(a[2], True)
            if st is None or c is None or st > len(s) or (c != "npos" and st + c > len(s)):
                return None
            if st == 0 and (c == "npos" or c >= len(s)):
                del s[:]; self.buf[i] = False
            else:
                if c == "npos":
                    del s[st:]
                else:
                    del s[st:st + c]
        elif k == "eraseat" and n == 2:
            p = num(a[1])
            if p is None or p >= len(s):
                return None
            del s[p]
        elif k == "insat" and n == 3:
            p = num(a[1]); c = num(a[2])
            if p is None or c is None or p > len(s) or not (1 <= c <= 65535):
                return None
            s.insert(p, c); self.buf[i] = True
        elif k == "eraser" and n == 3:
            x = num(a[1]); y = num(a[2])
            if x is None or y is None or not (x <= y <= len(s)):
                return None
            if not self.buf[i]:
                tag = "eraser-nobuf"
            del s[x:y]
        elif k == "assignit" and n == 4:
            j = num(a[1]); x = num(a[2]); y = num(a[3])
            if j is None or j >= NSTR or j == i or x is None or y is None or not (x <= y <= len(self.s[j])):
                return None
            s[:] = self.s[j][x:y]; self.buf[i] = True
        elif k == "clear" and n == 1:
            del s[:]; self.buf[i] = False
        elif k == "resize" and n == 3:
            m = num(a[1]); c = num(a[2])
            if m is None or c is None or not (1 <= c <= 65535):
                return None
            if m > len(s) and self.buf[i]:
                tag = "resize-grow"
            if m != len(s):
                self.buf[i] = True
            if m < len(s):
                del s[m:]
            else:
                s.extend([c] * (m - len(s)))
        elif k == "reserve" and n == 2:
            if num(a[1]) is None:
                return None
        elif k == "assign" and n == 2:
            j = num(a[1])
            if j is None or j >= NSTR:
                return None
            if j != i:
                s[:] = list(self.s[j]); self.buf[i] = self.buf[j]
        elif k == "assignn" and n == 3:
            m = num(a[1]); c = num(a[2])
            if m is None or c is None or not (1 <= c <= 65535):
                return None
            s[:] = [c] * m; self.buf[i] = True
        elif k == "assignsub" and n == 4:
            j = num(a[1]); p = num(a[2]); c = num(a[3])
            if j is None or j >= NSTR or p is None or c is None:
                return None
            src = self.s[j]
            if not (p < len(src) and p + c <= len(src)):
                return None
            if j == i:
                if not (p == 0 and c == len(s)):
                    self.buf[i] = True
                s[:] = src[p:p + c]
            else:
                s[:] = src[p:p + c]; self.buf[i] = c > 0
        elif k == "substr" and n == 4:
            j = num(a[1]); p = num(a[2]); c = num(a[3], True)
            if j is None or j >= NSTR or j == i or p is None or c is None:
                return None
            src = self.s[j]
            if not (p < len(src)) or (c != "npos" and p + c > len(src)):
                return None
            if c == "npos" and p >= 1:
                tag = "substr-npos"
            xs = src[p:] if c == "npos" else src[p:p + c]
            s[:] = xs; self.buf[i] = len(xs) > 0
        elif k == "swap" and n == 2:
            j = num(a[1])
            if j is None or j >= NSTR:
                return None
            self.s[i], self.s[j] = self.s[j], self.s[i]
            self.buf[i], self.buf[j] = self.buf[j], self.buf[i]
        else:
            return None
        return tag


class BmpRef:
    def __init__(self):
        self.size = [0, 0]

    def step(self, t):
        k = t[1]
        try:
            a = [int(x) for x in t[2:]]
        except ValueError:
            return None
        if not a or not (0 <= a[0] < 2) or any(x < 0 for x in a):
            return None
        i = a[0]; n = len(a)
        if k == "new" and n == 2 and a[1] <= 200:
            self.size[i] = a[1]
        elif k in ("set", "clear", "toggle") and n == 2:
            if a[1] >= self.size[i]:
                return None
        elif k == "clearall" and n == 1:
            pass
        else:
            return None
        return k


def gen_bmp(r, maxops):
    ref = BmpRef(); ops = []
    nops = r.range(2, maxops)
    _emit(ref, ops, "bmp new 0 %d" % r.choice([0, 1, 7, 8, 9, 15, 16, 17, 40, 64]))
    if r.chance(1, 3):
        _emit(ref, ops, "bmp new 1 %d" % r.range(0, 30))
    tries = 0
    while len(ops) < nops and tries < 4 * nops:
        tries += 1
        i = r.below(2)
        if ref.size[i] == 0:
            i = 0
        k = r.weighted([("set", 8), ("clear", 5), ("toggle", 5), ("clearall", 1), ("new", 1)])
        if k == "new":
            line = "bmp new %d %d" % (i, r.range(0, 70))
        elif k == "clearall":
            line = "bmp clearall %d" % i
        else:
            if ref.size[i] == 0:
                continue
            b = r.choice([0, ref.size[i] - 1, r.below(ref.size[i]), r.below(ref.size[i])])
            line = "bmp %s %d %d" % (k, i, b)
        _emit(ref, ops, line)
    return ops


class OcRef:
    def __init__(self):
        self.slot = [False] * 4

    def step(self, t):
        k = t[1]
        try:
            a = [int(x) for x in t[2:]]
        except ValueError:
            return None
        n = len(a)
        if k == "new" and n == 0:
            self.slot = [False] * 4
        elif k == "get" and n == 1 and 0 <= a[0] < 4:
            if self.slot[a[0]]:
                return None          # the slot still holds an object (it would be lost)
            self.slot[a[0]] = True
        elif k == "put" and n == 2 and 0 <= a[0] < 4:
            if not self.slot[a[0]]:
                return None
        elif k == "release" and n == 1 and 0 <= a[0] < 4:
            if not self.slot[a[0]]:
                return None          # releasing what one does not hold is outside the contract
            self.slot[a[0]] = False
        else:
            return None
        return k


def gen_oc(r, maxops):
    ref = OcRef(); ops = []
    nops = r.range(2, maxops)
    tries = 0
    while len(ops) < nops and tries < 5 * nops:
        tries += 1
        sl = r.below(4)
        k = r.weighted([("get", 8), ("put", 6), ("release", 7), ("new", 1)])
        if k == "new":
            line = "oc new"
        elif k == "put":
            line = "oc put %d %d" % (sl, r.range(-9, 99))
        else:
            line = "oc %s %d" % (k, sl)
        _emit(ref, ops, line)
    return ops


class ScRef:
    def __init__(self):
        self.slot = [False] * 8

    def step(self, t):
        k = t[1]; a = t[2:]
        if k == "new" and len(a) == 1 and a[0].isdigit() and int(a[0]) <= 200:
            self.slot = [False] * 8
        elif k in ("reset", "clear") and not a:
            self.slot = [False] * 8
        elif k == "get" and len(a) == 1 and a[0].isdigit() and int(a[0]) < 8:
            if self.slot[int(a[0])]:
                return None
            self.slot[int(a[0])] = True
        elif k == "release" and len(a) == 1 and a[0].isdigit() and int(a[0]) < 8:
            if not self.slot[int(a[0])]:
                return None
            self.slot[int(a[0])] = False
        else:
            return None
        return k


def gen_sc(r, maxops):
    """string cache with a small maximum size, so that release / reset beyond the bound destroy strings"""
    ref = ScRef(); ops = []
    nops = r.range(3, maxops)
    _emit(ref, ops, "sc new %d" % r.choice([0, 1, 2, 3, 100]))
    tries = 0
    while len(ops) < nops and tries < 6 * nops:
        tries += 1
        k = r.weighted([("get", 10), ("release", 9), ("reset", 1), ("clear", 1), ("new", 1)])
        if k in ("get", "release"):
            line = "sc %s %d" % (k, r.below(8))
        elif k == "new":
            line = "sc new %d" % r.choice([0, 1, 2, 3])
        else:
            line = "sc %s" % k
        _emit(ref, ops, line)
    return ops


class PoolRef:
    def step(self, t):
        k = t[1]
        a = t[2:]
        if not a or a[0] not in ("0", "1"):
            return None
        if k == "new" and len(a) == 2 and a[1].isdigit() and 1 <= int(a[1]) <= 200:
            return k
        if k == "clear" and len(a) == 1:
            return k
        if k in ("get", "gets") and len(a) == 2:
            xs = parse_units0(a[1])
            if xs is None:
                return None
            # a key whose first unit is U+0000 (with a non-zero length) is its own class
            return "get-leading-nul" if xs and xs[0] == 0 else k
        return None


def gen_pool(r, maxops, leading=False):
    """keys are length-carrying unit sequences: with embedded U+0000, prefixes of each other, few buckets"""
    ref = PoolRef(); ops = []
    nops = r.range(2, maxops)
    if r.chance(2, 3):
        _emit(ref, ops, "pool new 0 %d" % r.choice([1, 2, 3, 7, 11, 101]))
    alpha = r.choice([[1, 2], [0, 1, 2], [0, 1, 2, 3], [0, 97, 98], list(range(1, 10))])
    seen = []

    def us(xs):
        return ".".join(str(x) for x in xs) or "-"
    while len(ops) < nops:
        i = 0 if r.chance(4, 5) else 1
        k = r.weighted([("get", 10), ("gets", 10), ("clear", 1), ("new", 1)])
        if k in ("get", "gets"):
            m = r.below(5)
            if seen and m == 0:
                xs = list(r.choice(seen))                                   # the same key again
            elif seen and m == 1:
                base = r.choice(seen); xs = list(base[:r.below(len(base) + 1)])   # a prefix of an earlier key
            elif seen and m == 2:
                xs = list(r.choice(seen)) + [r.choice(alpha) for _ in range(r.range(1, 3))]   # an extension
            else:
                xs = [r.choice(alpha) for _ in range(r.weighted([(0, 1), (1, 3), (2, 4), (3, 3), (r.range(4, 12), 1)]))]
            if xs and xs[0] == 0 and not leading:
                xs[0] = r.choice([a for a in alpha if a != 0])
            seen.append(xs)
            line = "pool %s %d %s" % (k, i, us(xs))
        elif k == "clear":
            line = "pool clear %d" % i
        else:
            line = "pool new %d %d" % (i, r.choice([1, 3, 5, 101]))
        _emit(ref, ops, line)
    return ops


REFS = {"sc": ScRef, "cmp": CmpRef, "oc": OcRef, "pool": PoolRef, "bmp": BmpRef, "vec": VecRef, "map": MapRef, "set": SetRef, "deq": DeqRef, "lst": LstRef, "str": StrRef}


def tags(kind, ops):
    """tag per request, or None when the sequence leaves the standard's preconditions"""
    ref = REFS[kind]()
    out = []
    for o in ops:
        t = o.split()
        if len(t) == 2 and t[0] == "arith" and t[1].isdigit():
            out.append("arith")
            continue
        if len(t) < 2 or t[0] != kind:
            return None
        try:
            g = ref.step(t)
        except (IndexError, ValueError):
            g = None
        if g is None:
            return None
        out.append(g)
    return out


# ------------------------------------------------------------------------------------------ generators

def _emit(ref, ops, line):
    if ref.step(line.split()) is not None:
        ops.append(line)
        return True
    return False


def gen_vec(r, maxops, alias=True):
    ref = VecRef(); ops = []
    nops = r.range(1, maxops)
    small = r.chance(1, 2)
    w = [("push", 10), ("pop", 3), ("ins1", 8), ("insn", 6), ("insr", 6), ("erase", 5), ("erase1", 3), ("resize", 3), ("reserve", 3),
         ("clear", 1), ("assign", 2), ("copy", 3), ("swap", 2), ("newcap", 1), ("pushself", 1)]
    tries = 0
    while len(ops) < nops and tries < 4 * nops:
        tries += 1
        i = r.below(2) if small else r.below(NV)
        l = ref.v[i]
        k = r.weighted(w)
        x = r.range(-9, 99)
        j = (1 - i if i < 2 else 0) if small else (i + 1 + r.below(NV - 1)) % NV
        if k == "push":
            line = "vec push %d %d" % (i, x)
        elif k == "pop":
            line = "vec pop %d" % i
        elif k == "ins1":
            line = "vec ins1 %d %d %d" % (i, r.range(0, len(l)), x)
        elif k == "insn":
            n = r.weighted([(0, 1), (1, 3), (2, 3), (3, 2), (r.range(4, 12), 2)])
            line = "vec insn %d %d %d %d" % (i, r.range(0, len(l)), n, x)
        elif k == "insr":
            src = ref.v[j]
            a = r.range(0, len(src)); b = r.range(a, len(src))
            line = "vec insr %d %d %d %d %d" % (i, r.range(0, len(l)), j, a, b)
        elif k == "erase":
            a = r.range(0, len(l)); b = r.range(a, min(len(l), a + 4))
            line = "vec erase %d %d %d" % (i, a, b)
        elif k == "erase1":
            if not l:
                continue
            line = "vec erase1 %d %d" % (i, r.below(len(l)))
        elif k == "resize":
            line = "vec resize %d %d %d" % (i, r.range(0, len(l) + 6), x)
        elif k == "reserve":
            line = "vec reserve %d %d" % (i, r.range(0, len(l) + 10))
        elif k == "clear":
            line = "vec clear %d" % i
        elif k == "assign":
            src = ref.v[j]
            a = r.range(0, len(src)); b = r.range(a, len(src))
            line = "vec assign %d %d %d %d" % (i, j, a, b)
        elif k == "copy":
            line = "vec copy %d %d" % (i, r.below(NV))
        elif k == "swap":
            line = "vec swap %d %d" % (i, r.below(NV))
        elif k == "newcap":
            line = "vec newcap %d %d" % (i, r.range(0, 12))
        else:
            if not l:
                continue
            line = "vec pushself %d %d" % (i, r.below(len(l)))
        _emit(ref, ops, line)
    if alias and ops:
        # one aliasing request at the end of the sequence (the value argument is an element of the vector)
        i = int(ops[-1].split()[2]); l = ref.v[i]
        if l:
            if r.chance(2, 3):
                _emit(ref, ops, "vec insself %d %d %d %d" % (i, r.range(0, len(l)), r.range(1, 4), r.below(len(l))))
            else:
                _emit(ref, ops, "vec resizeself %d %d %d" % (i, r.range(0, len(l) + 8), r.below(len(l))))
    return ops


def gen_map_grow(r, maxops):
    """default-parameter map (29 buckets, load factor 0.75, erase threshold 50) grown past the rehash points (41st, 88th,
    188th distinct insertion) with lookups / erases / re-insertions of the key inserted last"""
    ref = MapRef(); ops = []
    nops = r.range(60, maxops)
    keyspace = r.choice([150, 400, 1000])
    last = None
    while len(ops) < nops:
        k = r.weighted([("ins", 30), ("set", 6), ("findlast", 6), ("eraselast", 3), ("erase", 4), ("find", 2)])
        key = r.below(keyspace)
        if k in ("ins", "set"):
            line = "map %s 0 %d %d" % (k, key, r.range(-9, 99)); last = key
        elif k == "findlast" and last is not None:
            line = "map find 0 %d" % last
        elif k == "eraselast" and last is not None:
            line = "map erase 0 %d" % last
        elif k == "erase" and ref.m[0]:
            line = "map erase 0 %d" % r.choice(ref.m[0])[0]
        else:
            line = "map find 0 %d" % key
        _emit(ref, ops, line)
    return ops


def gen_map(r, maxops, big=False):
    ref = MapRef(); ops = []
    nops = r.range(1, maxops)
    nm = 1 if r.chance(1, 2) else r.range(2, NM)
    keyspace = r.choice([6, 10, 16]) if not big else 90
    if not big:
        for i in range(nm):
            lfn, lfd = r.choice([(3, 4), (3, 4), (1, 2), (1, 1), (2, 1)])
            _emit(ref, ops, "map new %d %d %d %d %d" % (i, lfn, lfd, r.choice([1, 2, 3, 5]), r.choice([1, 2, 3, 5, 50])))
    w = [("ins", 12), ("set", 6), ("find", 5), ("erase", 9), ("clear", 1), ("copy", 1), ("copyctor", 1), ("swap", 1)]
    if big:
        w = [("ins", 30), ("set", 6), ("find", 3), ("erase", 14), ("clear", 0), ("copy", 0), ("copyctor", 0), ("swap", 0)]
    while len(ops) < nops + nm:
        i = r.below(nm)
        k = r.weighted(w)
        key = r.below(keyspace)
        if k == "erase" and ref.m[i] and r.chance(2, 3):
            key = r.choice(ref.m[i])[0]
        if k in ("ins", "set"):
            line = "map %s %d %d %d" % (k, i, key, r.range(-9, 99))
        elif k in ("find", "erase"):
            line = "map %s %d %d" % (k, i, key)
        elif k == "clear":
            line = "map clear %d" % i
        else:
            line = "map %s %d %d" % (k, i, r.below(nm) if nm > 1 else r.below(NM))
        _emit(ref, ops, line)
    return ops


def gen_set(r, maxops):
    ref = SetRef(); ops = []
    nops = r.range(1, maxops)
    keyspace = r.choice([8, 90, 400])
    live = [[], []]
    while len(ops) < nops:
        i = r.below(NS)
        k = r.weighted([("ins", 14), ("count", 3), ("erase", 9), ("clear", 1 if keyspace == 8 else 0), ("copyctor", 1)])
        key = r.below(keyspace)
        if k == "erase" and live[i] and r.chance(3, 4):
            key = r.choice(live[i])
        if k == "ins":
            line = "set ins %d %d" % (i, key)
            if key not in live[i]:
                live[i].append(key)
        elif k in ("count", "erase"):
            line = "set %s %d %d" % (k, i, key)
            if k == "erase" and key in live[i]:
                live[i].remove(key)
        elif k == "clear":
            line = "set clear %d" % i; live[i] = []
        else:
            j = r.below(NS)
            line = "set copyctor %d %d" % (i, j); live[i] = list(live[j])
        _emit(ref, ops, line)
    return ops


def gen_deq(r, maxops, multi=True):
    ref = DeqRef(); ops = []
    nops = r.range(1, maxops)
    nd = r.range(1, ND)
    bs = r.choice([1, 2, 3, 4, 10])
    for i in range(nd):
        b = bs if (not multi or r.chance(1, 2)) else r.choice([1, 2, 3, 5])   # differing block sizes: swap-diffbs class
        _emit(ref, ops, "deq new %d %d %d" % (i, b, r.weighted([(0, 5), (r.range(1, 7), 2)])))
    while len(ops) < nops + nd:
        i = r.below(nd); l = ref.d[i]
        k = r.weighted([("push", 14), ("pop", 8), ("resize", 3), ("clear", 1), ("copy", 2), ("copyctor", 1), ("swap", 2)])
        if k == "push":
            line = "deq push %d %d" % (i, r.range(-9, 99))
        elif k == "pop":
            line = "deq pop %d" % i
        elif k == "resize":
            if r.chance(1, 2):
                line = "deq resize %d %d" % (i, r.range(0, len(l) + 7))
            else:
                line = "deq resize %d %d" % (i, max(0, len(l) + r.range(-1, 1)))
        elif k == "clear":
            line = "deq clear %d" % i
        else:
            line = "deq %s %d %d" % (k, i, r.below(nd))
        _emit(ref, ops, line)
    return ops


def gen_lst(r, maxops):
    ref = LstRef(); ops = []
    nops = r.range(1, maxops)
    nl = r.range(1, NL)
    tries = 0
    while len(ops) < nops and tries < 6 * nops:
        tries += 1
        i = r.below(nl); l = ref.l[i]
        k = r.weighted([("pushb", 8), ("pushf", 5), ("popb", 4), ("popf", 4), ("insat", 6), ("eraseat", 5), ("save", 4),
                        ("deref", 4), ("insit", 3), ("eraseit", 2), ("splice", 5), ("splicer", 3), ("clear", 1), ("swap", 2),
                        ("new", 1)])
        x = r.range(-9, 99)
        if k in ("pushb", "pushf"):
            line = "lst %s %d %d" % (k, i, x)
        elif k in ("popb", "popf", "clear", "new"):
            line = "lst %s %d" % (k, i)
        elif k == "insat":
            line = "lst insat %d %d %d" % (i, r.range(0, len(l)), x)
        elif k == "eraseat":
            if not l:
                continue
            line = "lst eraseat %d %d" % (i, r.below(len(l)))
        elif k == "save":
            if not l:
                continue
            line = "lst save %d %d %d" % (r.below(NSLOT), i, r.below(len(l)))
        elif k in ("deref", "insit", "eraseit"):
            cands = [s for s in range(NSLOT) if ref.slots[s] is not None]
            if not cands:
                continue
            s = r.choice(cands)
            li = ref.where(ref.slots[s])
            if k == "deref":
                line = "lst deref %d %d" % (s, li)
            elif k == "insit":
                line = "lst insit %d %d %d" % (li, s, x)
            else:
                line = "lst eraseit %d %d" % (li, s)
        elif k == "splice":
            j = r.below(nl); src = ref.l[j]
            if not src:
                continue
            line = "lst splice %d %d %d %d" % (i, r.range(0, len(l)), j, r.below(len(src)))
        elif k == "splicer":
            if nl < 2:
                continue
            j = (i + 1 + r.below(nl - 1)) % nl; src = ref.l[j]
            a = r.range(0, len(src)); b = r.range(a, len(src))
            line = "lst splicer %d %d %d %d %d" % (i, r.range(0, len(l)), j, a, b)
        else:
            line = "lst swap %d %d" % (i, r.below(nl))
        _emit(ref, ops, line)
    return ops


def gen_str(r, maxops, defects=True):
    ref = StrRef(); ops = []
    nops = r.range(1, maxops)
    ns = r.range(1, NSTR)
    tries = 0

    def us(n):
        return ".".join(str(r.range(1, 9) if r.chance(9, 10) else r.choice([32, 255, 0xD800, 0xFFFF])) for _ in range(n)) or "-"
    while len(ops) < nops and tries < 6 * nops:
        tries += 1
        i = r.below(ns); s = ref.s[i]
        j = r.below(ns)
        k = r.weighted([("app", 9), ("appstr", 3), ("appsub", 3), ("appn", 4), ("push", 4), ("ins", 6), ("insn", 4), ("erase", 6),
                        ("eraseat", 3), ("clear", 1), ("resize", 4), ("reserve", 2), ("assign", 3), ("assignn", 1),
                        ("assignsub", 4), ("substr", 4), ("swap", 2), ("new", 1), ("eraser", 3), ("assignit", 2),
                        ("appz", 3), ("assignz", 2), ("insz", 2), ("assignp", 2), ("ctor", 2), ("insat", 5)])
        c = r.range(1, 9)
        if k == "app":
            line = "str app %d %s" % (i, us(r.weighted([(0, 1), (1, 3), (r.range(2, 6), 5), (r.range(7, 20), 1)])))
        elif k == "ctor":
            line = "str ctor %d %s" % (i, us(r.range(0, 6)))
        elif k == "insat":
            line = "str insat %d %d %d" % (i, r.range(0, len(s)), c)
        elif k in ("appz", "assignz", "insz", "assignp"):
            xs = [r.range(1, 9) for _ in range(r.range(0, 6))]
            if k != "assignp" and xs and r.chance(1, 4):
                xs[r.below(len(xs))] = 0          # the buffer continues after the terminator
            u = ".".join(str(x) for x in xs) or "-"
            if k == "insz":
                line = "str insz %d %d %s" % (i, r.range(0, len(s)), u)
            elif k == "assignp":
                line = "str assignp %d %s %d" % (i, u, r.range(0, len(xs)))
            else:
                line = "str %s %d %s" % (k, i, u)
        elif k == "appstr":
            line = "str appstr %d %d" % (i, j)
        elif k == "appsub":
            src = ref.s[j]
            if j == i or not src:
                continue
            p = r.below(len(src))
            if r.chance(1, 4):
                line = "str appsub %d %d %d npos" % (i, j, p)
            else:
                line = "str appsub %d %d %d %d" % (i, j, p, r.range(0, len(src) - p))
        elif k == "appn":
            line = "str appn %d %d %d" % (i, r.weighted([(0, 1), (1, 2), (r.range(2, 6), 3)]), c)
        elif k == "push":
            line = "str push %d %d" % (i, c)
        elif k == "ins":
            line = "str ins %d %d %s" % (i, r.range(0, len(s)), us(r.range(0, 5)))
        elif k == "insn":
            line = "str insn %d %d %d %d" % (i, r.range(0, len(s)), r.range(0, 4), c)
        elif k == "erase":
            st = r.range(0, len(s))
            if r.chance(1, 4):
                line = "str erase %d %d npos" % (i, st)
            else:
                line = "str erase %d %d %d" % (i, st, r.range(0, len(s) - st))
        elif k == "eraseat":
            if not s:
                continue
            line = "str eraseat %d %d" % (i, r.below(len(s)))
        elif k in ("clear", "new"):
            line = "str %s %d" % (k, i)
        elif k == "eraser":
            if not ref.buf[i] and not defects:
                continue
            x = r.range(0, len(s)); y = r.range(x, len(s)) if r.chance(2, 3) else len(s)
            line = "str eraser %d %d %d" % (i, x, y)
        elif k == "assignit":
            src = ref.s[j]
            if j == i:
                continue
            x = r.range(0, len(src)); y = r.range(x, len(src))
            line = "str assignit %d %d %d %d" % (i, j, x, y)
        elif k == "resize":
            line = "str resize %d %d %d" % (i, r.weighted([(0, 2), (r.range(0, len(s) + 5), 5)]), c)
        elif k == "reserve":
            line = "str reserve %d %d" % (i, r.range(0, len(s) + 12))
        elif k == "assign":
            line = "str assign %d %d" % (i, j)
        elif k == "assignn":
            line = "str assignn %d %d %d" % (i, r.range(0, 5), c)
        elif k == "assignsub":
            src = ref.s[j]
            if not src:
                continue
            p = r.below(len(src))
            line = "str assignsub %d %d %d %d" % (i, j, p, r.range(0, len(src) - p))
        elif k == "substr":
            src = ref.s[j]
            if j == i or not src:
                continue
            p = r.below(len(src))
            if r.chance(1, 4):
                line = "str substr %d %d %d npos" % (i, j, p)
            else:
                line = "str substr %d %d %d %d" % (i, j, p, r.range(0, len(src) - p))
        else:
            line = "str swap %d %d" % (i, j)
        _emit(ref, ops, line)
    if defects and r.chance(1, 3):
        # a counted buffer that starts with U+0000 (last request: the string then contains a NUL)
        _emit(ref, ops, "str ctor %d 0.%s" % (r.below(ns), us(r.range(1, 3))))
    return ops
