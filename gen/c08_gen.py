"""C08 generators: result trees, SAX event scripts, stylesheets, option settings.  All randomness from the Rng
passed in (vlib.common.Rng seeded with VERIF_SEED)."""

XSL_NS = "http://www.w3.org/1999/XSL/Transform"
XALAN_NS = "http://xml.apache.org/xalan"

NAMES = ["a", "b", "c", "d", "e", "item", "x1"]
HTML_NAMES = ["div", "p", "span", "b", "i", "br", "hr", "img", "pre", "ul", "li", "a", "em", "h1", "table", "tr", "td",
              "input", "textarea", "select", "option"]
ATTR_NAMES = ["k", "id", "n", "t"]
TEXT_CHARS = list("abcxyz 012") + ["<", ">", "&", '"', "'", "\n", "\t", " ", "\r", "\u00e9", "\u20ac", "\u2028", "\u0085", "]", "]", ">"]
SAFE_CHARS = list("abcdxyz019 ._") + ["\t"]


def hx(s):
    if not s:
        return "-"
    b = s.encode("utf-16-le", "surrogatepass")
    return "".join("%02x%02x" % (b[i + 1], b[i]) for i in range(0, len(b), 2))


def unhx4(h):
    if h == "-":
        return ""
    t = "".join(chr(int(h[i:i + 4], 16)) for i in range(0, len(h), 4))
    # UTF-16 code units -> characters (surrogate pairs combined, lone surrogates kept)
    return t.encode("utf-16-le", "surrogatepass").decode("utf-16-le", "surrogatepass")


def unhx4_raw(h):
    """code units as they are (no surrogate combination)"""
    if h == "-":
        return ""
    return "".join(chr(int(h[i:i + 4], 16)) for i in range(0, len(h), 4))


def gen_text(r, rich=True, maxlen=6):
    n = r.range(1, maxlen)
    pool = TEXT_CHARS if rich else SAFE_CHARS
    t = "".join(r.choice(pool) for _ in range(n))
    if rich and r.chance(1, 6):
        t = r.choice([" ", "\n", "  ", "\n  ", "\t"])   # whitespace-only text node that EXISTS in the result tree
    if rich and r.chance(1, 12):
        t += "]]>" + r.choice(["", "z"])
    return t


def gen_node(r, depth, names, allow_raw=True, html=False):
    k = r.weighted([("elem", 10 if depth > 0 else 0), ("text", 8), ("comment", 2), ("pi", 1), ("raw", 1 if allow_raw else 0),
                    ("rtfraw", 1 if allow_raw else 0)])
    if k == "elem":
        return gen_elem(r, depth - 1, names, allow_raw, html)
    if k == "text":
        return ("text", gen_text(r))
    if k == "comment":
        return ("comment", gen_text(r, rich=False))
    if k == "pi":
        return ("pi", r.choice(["t", "pi1"]), r.choice(["", "d", " d", "x y"]))
    if k == "rtfraw":
        # disable-output-escaping text replayed from a result tree fragment (xsl:copy-of of a variable): the serializer
        # sees the marker PI <?Xalan raw?> and then an ordinary characters()/cdata() call
        return ("rtfraw", r.choice(["r", "<r/>", "&#65;", "r s"]))
    return ("raw", r.choice(["r", "<r/>", "&#65;", "r s"]))


def gen_elem(r, depth, names, allow_raw=True, html=False):
    name = r.choice(names)
    attrs = []
    if r.chance(1, 3):
        for an in r.shuffle(ATTR_NAMES)[: r.range(1, 2)]:
            attrs.append((an, gen_text(r, rich=r.chance(1, 2), maxlen=4) if r.chance(4, 5) else ""))
    nk = r.weighted([(0, 3), (1, 4), (2, 4), (3, 3), (4, 1)]) if depth >= 0 else 0
    kids = [gen_node(r, depth, names, allow_raw, html) for _ in range(nk)]
    return ("elem", name, attrs, kids)


def gen_doc(r, maxdepth=3, names=NAMES, allow_raw=True):
    """a well-formed document: optional comments/PIs, one element, optional trailing comment"""
    pre = []
    if r.chance(1, 6):
        pre.append(("comment", gen_text(r, rich=False)))
    if r.chance(1, 10):
        pre.append(("pi", "t", "d"))
    root = gen_elem(r, r.range(0, maxdepth), names, allow_raw)
    post = [("comment", "end")] if r.chance(1, 10) else []
    return pre + [root] + post


RAW_MARKER = ("Xalan", "raw")      # FormatterListener::s_piTarget / s_piData
_var_counter = [0]


def events_of(nodes, cdata_elems=(), in_cd=False):
    """what XSLTEngineImpl sends (cdata stack as in flushPending/endElement/characters)"""
    ev = []
    for n in nodes:
        if n[0] == "elem":
            ev.append(("S", n[1], n[2]))
            ev += events_of(n[3], cdata_elems, n[1] in cdata_elems)
            ev.append(("E", n[1]))
        elif n[0] == "text":
            ev.append(("C" if in_cd else "T", n[1]))
        elif n[0] == "raw":
            ev.append(("R", n[1]))
        elif n[0] == "rtfraw":
            ev.append(("P", RAW_MARKER[0], RAW_MARKER[1]))
            ev.append(("C" if in_cd else "T", n[1]))
        elif n[0] == "comment":
            ev.append(("M", n[1]))
        elif n[0] == "pi":
            ev.append(("P", n[1], n[2]))
    return ev


def ev_words(evs):
    w = []
    for e in evs:
        if e[0] == "S":
            w += ["S", hx(e[1]), str(len(e[2]))]
            for a, v in e[2]:
                w += [hx(a), hx(v)]
        elif e[0] == "P":
            w += ["P", hx(e[1]), hx(e[2])]
        else:
            w += [e[0], hx(e[1])]
    return w


def sax_line(cfg, evs):
    """cfg: dict(method, indent(bool), amount, ver, enc, xmldecl, standalone, dsys, dpub, escurls, omitmeta)"""
    w = ["sax", cfg["method"], "1" if cfg["indent"] else "0", str(cfg["amount"]), hx(cfg["ver"]), hx(cfg["enc"]),
         "1" if cfg["xmldecl"] else "0", hx(cfg["standalone"]), hx(cfg["dsys"]), hx(cfg["dpub"]),
         "1" if cfg["escurls"] else "0", "1" if cfg["omitmeta"] else "0", "|"]
    return " ".join(w + ev_words(evs))


BASE_CFG = dict(method="xml", indent=False, amount=0, ver="1.0", enc="UTF-8", xmldecl=True, standalone="", dsys="", dpub="",
                escurls=True, omitmeta=False)


def esc_text(t):
    out = []
    for c in t:
        if c == "<":
            out.append("&lt;")
        elif c == ">":
            out.append("&gt;")
        elif c == "&":
            out.append("&amp;")
        elif c in "\r\t\n" or ord(c) > 126:
            out.append("&#%d;" % ord(c))
        else:
            out.append(c)
    return "".join(out)


def esc_attr(t):
    return esc_text(t).replace('"', "&quot;").replace("{", "{{").replace("}", "}}")


def xsl_body(nodes):
    out = []
    for n in nodes:
        if n[0] == "elem":
            out.append("<" + n[1] + "".join(' %s="%s"' % (a, esc_attr(v)) for a, v in n[2]) + ">" + xsl_body(n[3]) + "</" + n[1] + ">")
        elif n[0] == "text":
            out.append("<xsl:text>" + esc_text(n[1]) + "</xsl:text>")
        elif n[0] == "raw":
            out.append('<xsl:text disable-output-escaping="yes">' + esc_text(n[1]) + "</xsl:text>")
        elif n[0] == "rtfraw":
            _var_counter[0] += 1
            v = "v%d" % _var_counter[0]
            out.append('<xsl:variable name="%s"><xsl:text disable-output-escaping="yes">%s</xsl:text></xsl:variable>'
                       '<xsl:copy-of select="$%s"/>' % (v, esc_text(n[1]), v))
        elif n[0] == "comment":
            out.append("<xsl:comment><xsl:text>" + esc_text(n[1]) + "</xsl:text></xsl:comment>")
        elif n[0] == "pi":
            out.append('<xsl:processing-instruction name="%s"><xsl:text>%s</xsl:text></xsl:processing-instruction>' % (n[1], esc_text(n[2])))
    return "".join(out)


OUT_ATTR_XSL = {"method": "method", "version": "version", "indent": "indent", "encoding": "encoding", "dsys": "doctype-system",
                "dpub": "doctype-public", "omitdecl": "omit-xml-declaration", "standalone": "standalone",
                "cdata": "cdata-section-elements", "escurls": "xalan:use-url-escaping", "indentamount": "xalan:indent-amount",
                "omitmeta": "xalan:omit-meta-tag"}
HEX_ATTRS = ("version", "encoding", "dsys", "dpub", "standalone")


def stylesheet(out_attrs, nodes):
    """out_attrs: ordered list of (key, value) with keys of OUT_ATTR_XSL; value is text (cdata: list of names)"""
    a = []
    for k, v in out_attrs:
        val = " ".join(v) if k == "cdata" else str(v)
        a.append('%s="%s"' % (OUT_ATTR_XSL[k], esc_attr(val)))
    return ('<?xml version="1.0"?><xsl:stylesheet version="1.0" xmlns:xsl="%s" xmlns:xalan="%s" exclude-result-prefixes="xalan">'
            '<xsl:output %s/><xsl:template match="/">%s</xsl:template></xsl:stylesheet>' % (XSL_NS, XALAN_NS, " ".join(a), xsl_body(nodes)))


def xf_line(api, out_attrs, nodes):
    """api: dict(indent, enc, omitmeta(0..2), escurls(0..2))"""
    w = ["xf", str(api["indent"]), hx(api["enc"]), str(api["omitmeta"]), str(api["escurls"]), hx(stylesheet(out_attrs, nodes))]
    for k, v in out_attrs:
        if k in HEX_ATTRS:
            w.append("%s=%s" % (k, hx(v)))
        elif k == "cdata":
            w.append("cdata=" + ",".join(hx(x) for x in v))
        else:
            w.append("%s=%s" % (k, v))
    w.append("|")
    return " ".join(w + ev_words(events_of(nodes)))


BASE_API = dict(indent=-1, enc="", omitmeta=0, escurls=0)
