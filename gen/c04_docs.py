"""C04 generator: result trees (as SAX event scripts) with risky characters placed around the 512-entry
writer buffers, plus the expectation (canonical re-parse) and feature classification used by checks/c04.py.

A document is a tree:  ("el", name, [(aname, avalue)...], [children])  |  ("t", units, tail)  |  ("c", units, tail)
                       |  ("m", units)  |  ("p", target_units, data_units)  |  ("r", units) = charactersRaw
All strings are lists of UTF-16 code units.  `tail` (or None) is what lies behind `length` in the buffer handed
to characters()/cdata() (None = a terminating NUL, the common case).
"""

def u(s):
    out = []
    for ch in s:
        c = ord(ch)
        if c > 0xFFFF:
            c -= 0x10000
            out += [0xD800 + (c >> 10), 0xDC00 + (c & 0x3FF)]
        else:
            out.append(c)
    return out


def hx(units):
    return "".join("%04x" % x for x in units) if units else "-"


def unhx(s):
    return [] if s == "-" else [int(s[i:i + 4], 16) for i in range(0, len(s), 4)]


# ---- alphabet ---------------------------------------------------------------------------------
PLAIN = u("abcxyz019 .,;:=/()!")
MARKUP = u("<>&\"'")
WS = [9, 10, 13, 32]
BRACKETS = u("]]>]-?")
LATIN1 = [0xE9, 0xA0, 0xFF, 0xB5]
C1 = [0x7F, 0x80, 0x85, 0x9F]
BMP = [0x100, 0x3A9, 0x7FF, 0x800, 0x20AC, 0x2028, 0x2029, 0xD7FF, 0xE000, 0xFFFD]
SUPP = [[0xD835, 0xDCB3], [0xD800, 0xDC00], [0xDBFF, 0xDFFD], [0xD83D, 0xDE00]]
FORBIDDEN = [1, 8, 0xB, 0xC, 0xE, 0x1F, 0]
NONCHAR = [0xFFFE, 0xFFFF]
BADSURR = [[0xD800], [0xDC00], [0xD835, 0x61], [0xDFFF, 0xD800]]

NAMES = [u("a"), u("b"), u("long-element.name_1")]
NAME_LATIN = u("né")          # representable in ISO-8859-1, not in US-ASCII
NAME_BMP = u("nΩ")            # not representable in either
ATTR_NAMES = [u("id"), u("x"), u("y"), u("z")]


def gen_string(r, maxlen, profile):
    """profile: dict class -> weight"""
    n = r.range(0, maxlen)
    out = []
    classes = list(profile.items())
    for _ in range(n):
        k = r.weighted(classes)
        if k == "plain":
            out.append(r.choice(PLAIN))
        elif k == "markup":
            out.append(r.choice(MARKUP))
        elif k == "ws":
            out.append(r.choice(WS))
        elif k == "ws_nl":
            out.append(r.choice([10, 32]))
        elif k == "brackets":
            out += r.choice([u("]]>"), u("]]"), u("]"), u(">"), u("-"), u("?"), u("]>"), u("]]]>")])
        elif k == "latin1":
            out.append(r.choice(LATIN1))
        elif k == "c1":
            out.append(r.choice(C1))
        elif k == "bmp":
            out.append(r.choice(BMP))
        elif k == "supp":
            out += r.choice(SUPP)
        elif k == "forbidden":
            out.append(r.choice(FORBIDDEN))
        elif k == "nonchar":
            out.append(r.choice(NONCHAR))
        elif k == "badsurr":
            out += r.choice(BADSURR)
    return out


P_CLEAN = {"plain": 10, "markup": 4, "ws": 3, "brackets": 3, "latin1": 3, "c1": 1, "bmp": 3, "supp": 3}
P_DIRTY = dict(P_CLEAN, forbidden=1, nonchar=1, badsurr=1)
# comment / PI / CDATA most of the time get characters that every encoding can write literally
P_LITERAL = {"plain": 12, "markup": 5, "brackets": 4, "ws_nl": 2}
P_ASCII = {"plain": 10, "markup": 4, "ws": 2, "brackets": 3}


def strip_for_comment(s):
    """the SAX-level caller (ElemComment / ElemPI) guarantees: no "--", no trailing "-", no NUL"""
    out = []
    for c in s:
        if c == 0:
            continue
        if c == 45 and out and out[-1] == 45:
            continue
        out.append(c)
    while out and out[-1] == 45:
        out.pop()
    return out


def strip_for_pi(s):
    out = []
    for c in s:
        if c == 0:
            continue
        if c == 62 and out and out[-1] == 63:
            continue
        out.append(c)
    return out


RAW_PLAIN = u("abcxyz019 .,;:=/()!")
# FormatterListener::s_piTarget / s_piData: the PI that makes the next text node unescaped (the translator reads the
# same constants for the model; here they are written out, so that a changed constant shows as a stray PI)
RAW_MARKER = (u("Xalan"), u("raw"))


def gen_doc(r, dirty):
    """one document; the first child of the root is a pad of 'a's that moves what follows to an
    offset around the 512 / 1024 marks of the writer's buffer"""
    prof = P_DIRTY if dirty else P_CLEAN
    pad_target = r.weighted([(r.range(440, 530), 8), (r.range(0, 40), 2), (r.range(950, 1050), 2), (r.range(1450, 1560), 1)])
    root_name = r.choice([u("root"), u("r"), u("doc.1")])
    attrs = []
    if r.chance(1, 3):
        attrs.append((u("xml:lang"), u("en")))
    budget = [r.range(1, 7)]

    def gen_children(depth):
        kids = []
        n = r.range(0, 3)
        for _ in range(n):
            if budget[0] <= 0:
                break
            budget[0] -= 1
            k = r.weighted([("t", 8), ("c", 5), ("m", 3), ("p", 2), ("el", 4 if depth < 3 else 0), ("raw", 2)])
            if k == "raw":
                # the marker PI + a text / CDATA event (what xsl:copy-of of disable-output-escaping text sends), then
                # ordinary text with markup characters: only the first may come out unescaped
                plain = [r.choice(RAW_PLAIN) for _ in range(r.range(1, 12))]
                kids.append((r.choice(["rt", "rc"]), plain))
                if r.chance(3, 4):
                    if r.chance(1, 3):
                        kids.append(("m", u("c")))
                    s = r.choice([u("<hr/>"), u("a&b"), u("]]>"), u("<"), u("x>y")]) + gen_string(r, 6, prof)
                    kids.append(("t", s, None))
            elif k == "t":
                s = gen_string(r, 12, prof)
                kids.append(("t", s, tail_for(r, s)))
            elif k == "c":
                s = gen_string(r, 12, prof if r.chance(1, 3) else P_LITERAL)
                kids.append(("c", s, tail_for(r, s)))
            elif k == "m":
                kids.append(("m", strip_for_comment(gen_string(r, 10, prof if r.chance(1, 4) else P_LITERAL))))
            elif k == "p":
                tgt = r.choice([u("pi"), u("target"), u("x-y")])
                kids.append(("p", tgt, strip_for_pi(gen_string(r, 10, prof if r.chance(1, 4) else P_LITERAL))))
            else:
                nm = r.choice(NAMES[:3] + ([NAME_LATIN] if r.chance(1, 8) else []) + ([NAME_BMP] if r.chance(1, 16) else []))
                at = []
                for an in r.shuffle(ATTR_NAMES[:4])[:r.range(0, 2)]:
                    if an == u("p:q"):
                        continue
                    v = gen_string(r, 10, prof)
                    at.append((an, [c for c in v if c != 0]))
                kids.append(("el", nm, at, gen_children(depth + 1)))
        return kids

    kids = gen_children(1)
    if r.chance(1, 2):
        v = gen_string(r, 10, prof)
        attrs.append((u("k"), [c for c in v if c != 0]))
    if pad_target:
        # pad as text or as a comment in front of the root's other children
        if r.chance(3, 4):
            kids.insert(0, ("t", [97] * pad_target, None))
        else:
            kids.insert(0, ("m", [98] * pad_target))
    return ("el", root_name, attrs, kids)


def tail_for(r, s):
    """sometimes hand the text as a slice of a larger buffer (SAX callers do)"""
    if not s or not r.chance(1, 6):
        return None
    return r.choice([u(">"), u("]>"), u("]]>"), u("x"), [0xDC00], u("]")]) + [0]


# ---- flatten --------------------------------------------------------------------------------------
def events(node):
    k = node[0]
    if k == "el":
        out = ["s:" + ":".join([hx(node[1])] + [hx(a) + "=" + hx(v) for a, v in node[2]])]
        for ch in node[3]:
            out += events(ch)
        out.append("e:" + hx(node[1]))
        return out
    if k in ("t", "c"):
        if node[2] is None:
            return ["%s:%s" % (k, hx(node[1]))]
        return ["%s:%s:%s" % (k, hx(node[1]), hx(node[2]))]
    if k == "m":
        return ["m:" + hx(node[1])]
    if k == "p":
        return ["p:%s:%s" % (hx(node[1]), hx(node[2]))]
    if k == "mk":                     # the bare marker PI
        return ["p:%s:%s" % (hx(RAW_MARKER[0]), hx(RAW_MARKER[1]))]
    if k in ("rt", "rc"):             # marker PI + characters / cdata: written raw
        return ["p:%s:%s" % (hx(RAW_MARKER[0]), hx(RAW_MARKER[1])), "%s:%s" % ("t" if k == "rt" else "c", hx(node[1]))]
    if k == "r":                      # charactersRaw (disable-output-escaping): the bulk write path of the writers
        return ["r:" + hx(node[1])]
    raise ValueError(k)


def expected(node):
    """canonical re-parse of the tree: adjacent text merged, empty text dropped"""
    out = []

    def text(s):
        if not s:
            return
        if out and out[-1][0] == "t":
            out[-1] = ("t", out[-1][1] + s)
        else:
            out.append(("t", list(s)))

    def walk(n):
        k = n[0]
        if k == "el":
            out.append(("s", n[1], n[2]))
            for ch in n[3]:
                walk(ch)
            out.append(("e", n[1]))
        elif k in ("t", "c", "r", "rt", "rc"):    # raw text is generated without markup characters: it reads back as itself
            text(n[1])
        elif k == "mk":
            pass
        elif k == "m":
            out.append(("m", n[1]))
        else:
            out.append(("p", n[1], n[2]))
    walk(node)
    toks = []
    for e in out:
        if e[0] == "s":
            toks.append("s:" + ":".join([hx(e[1])] + [hx(a) + "=" + hx(v) for a, v in e[2]]))
        elif e[0] == "e":
            toks.append("e:" + hx(e[1]))
        elif e[0] == "t":
            toks.append("t:" + hx(e[1]))
        elif e[0] == "m":
            toks.append("m:" + hx(e[1]))
        else:
            # the parser strips the white space between target and data
            d = list(e[2])
            while d and d[0] in (9, 10, 13, 32):
                d.pop(0)
            toks.append("p:%s:%s" % (hx(e[1]), hx(d)))
    return toks


# ---- classification ---------------------------------------------------------------------------------
def scalars(s):
    """(list of scalars, malformed?)"""
    out = []
    bad = False
    i = 0
    while i < len(s):
        c = s[i]
        if 0xD800 <= c <= 0xDBFF:
            if i + 1 < len(s) and 0xDC00 <= s[i + 1] <= 0xDFFF:
                out.append(0x10000 + ((c - 0xD800) << 10) + (s[i + 1] - 0xDC00))
                i += 2
                continue
            bad = True
        elif 0xDC00 <= c <= 0xDFFF:
            bad = True
        out.append(c)
        i += 1
    return out, bad


def is_xml_char(c, ver):
    if ver == "1.0":
        return c in (9, 10, 13) or 0x20 <= c <= 0xD7FF or 0xE000 <= c <= 0xFFFD or 0x10000 <= c <= 0x10FFFF
    return 1 <= c <= 0xD7FF or 0xE000 <= c <= 0xFFFD or 0x10000 <= c <= 0x10FFFF


def is_restricted_11(c):
    return 1 <= c <= 8 or c in (0xB, 0xC) or 0xE <= c <= 0x1F or 0x7F <= c <= 0x84 or 0x86 <= c <= 0x9F


def can_enc(c, enc):
    if enc == "ISO-8859-1":
        return c < 256
    if enc == "US-ASCII":
        return c < 128
    if enc == "UTF-32BE":
        return c < 0x100000       # what ICU's canTranscodeTo answers (plane 16 is refused)
    return True


def features(node, enc, ver):
    """(unrepresentable, feats): `unrepresentable` = reasons why NO XML document in this encoding/version
    parses back to this tree (an error is the right outcome); `feats` = risky ingredients present
    (used to key a violation narrowly)."""
    unrep = set()
    feats = set()

    def chars(ctx, s):
        sc, bad = scalars(s)
        if bad:
            unrep.add(ctx + "+lone-surrogate")
        for c in sc:
            if 0xD800 <= c <= 0xDFFF:
                continue
            if not is_xml_char(c, ver):
                unrep.add(ctx + "+non-xml-char")
                continue
            literal_only = ctx in ("comment", "pi", "cdata-only", "name")
            if not can_enc(c, enc):
                feats.add(ctx + "+unencodable")
                if literal_only and ctx != "cdata-only":
                    unrep.add(ctx + "+unencodable")
            if c == 13:
                feats.add(ctx + "+cr")
                if ctx in ("comment", "pi"):
                    unrep.add(ctx + "+cr")
            if ver == "1.1" and c in (0x85, 0x2028):
                feats.add(ctx + "+nel-lsep")
                if ctx in ("comment", "pi"):
                    unrep.add(ctx + "+nel-lsep")
            if ver == "1.1" and is_restricted_11(c):
                feats.add(ctx + "+restricted11")
                if ctx in ("comment", "pi"):
                    unrep.add(ctx + "+restricted11")
            if ver == "1.1" and c == 9 and ctx in ("comment", "pi", "cdata"):
                feats.add(ctx + "+tab11")
            if c > 0xFFFF:
                feats.add(ctx + "+supplementary")
        return sc

    def has_sub(s, pat):
        return any(s[i:i + len(pat)] == pat for i in range(len(s) - len(pat) + 1))

    def walk(n):
        k = n[0]
        if k == "el":
            chars("name", n[1])
            for a, v in n[2]:
                chars("name", a)
                chars("attr", v)
            for ch in n[3]:
                walk(ch)
        elif k == "t":
            chars("text", n[1])
            if n[2] is not None:
                feats.add("text+slice")
        elif k in ("r", "rt", "rc"):
            sc = chars("text", n[1])
            feats.add("raw-text" if k == "r" else "raw-marker")
            if any(c > 0xFFFF and not can_enc(c, enc) for c in sc):
                # unescaped text goes through the writer's bulk write: one reference per character, not per code unit
                feats.add("raw+supplementary-unencodable")
        elif k == "mk":
            feats.add("raw-marker")
        elif k == "c":
            chars("cdata", n[1])
            if n[2] is not None:
                feats.add("cdata+slice")
            if has_sub(n[1], [93, 93, 62]):
                feats.add("cdata+]]>")
            if n[1] and n[1][-1] == 93:
                feats.add("cdata+trailing-]")
        elif k == "m":
            chars("comment", n[1])
        else:
            chars("name", n[1])
            chars("pi", n[2])
    walk(node)
    return unrep, feats
