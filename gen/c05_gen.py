"""Generators for C05.

core stream (harness/c05_core.cpp + xm_c05):
  gen_sax_pair(r)  -> (line_a, line_b, meta): two fragmentations of the same logical document as `sax` requests
  gen_out(r)       -> (line, expected_bytes_hex or None): print-writer operation history
forms stream (harness/c05_forms.cpp):
  gen_case(r, i)   -> dict(xml=..., xsl=..., cls=...): a source document and a stylesheet whose result depends on
                      document order / keys / numbering
"""


def hx(s):
    """python str -> 4 hex digits per UTF-16 unit"""
    if s == "":
        return "-"
    b = s.encode("utf-16-be", "surrogatepass")
    return b.hex()


NAMES = ["a", "b", "c", "d", "item", "x1"]
TEXT_ALPHABET = ["a", "b", "z", " ", " ", "\n", "\t", "\r", "&", "<", "é", "中", "\U0001f600", "]", ">", "x"]


def rand_text(r, lo=1, hi=6):
    return "".join(r.choice(TEXT_ALPHABET) for _ in range(r.range(lo, hi)))


def rand_ws(r):
    if r.chance(1, 6):
        # indentation-style runs around the lengths at which an implementation might switch representation
        n = r.choice([63, 64, 65, 200])
        return "\n" + r.choice([" ", "\t"]) * (n - 1)
    return "".join(r.choice([" ", "\n", "\t", "\r"]) for _ in range(r.range(1, 3)))


def gen_forest(r, depth, top=False):
    """logical forest: list of nodes ('t', text) | ('m', s) | ('p', target, data) | ('e', name, attrs, kids) | ('w', ws)"""
    out = []
    n = r.range(0, 4) if not top else r.range(0, 3)
    for _ in range(n):
        k = r.weighted([("t", 5), ("m", 2), ("p", 1), ("e", 4 if depth > 0 else 0), ("w", 1)])
        if k == "t":
            out.append(("t", rand_text(r)))
        elif k == "m":
            out.append(("m", rand_text(r, 0, 4).replace("-", "")))
        elif k == "p":
            out.append(("p", r.choice(["pi", "go"]), rand_text(r, 0, 4)))
        elif k == "w":
            out.append(("w", rand_ws(r)))
        else:
            attrs = []
            for an in r.shuffle(["id", "k", "v", "xmlns:q", "xmlns", "xmlnsx"])[: r.range(0, 3)]:
                attrs.append((an, rand_text(r, 0, 3) if not an.startswith("xmlns") else r.choice(["urn:a", "urn:b"])))
            out.append(("e", r.choice(NAMES), attrs, gen_forest(r, depth - 1)))
    return out


def fragment(r, s, style):
    """cut s into pieces; style 0: one piece, 1: every char, 2: random with empty pieces"""
    if style == 0:
        return [s]
    units = []
    for ch in s:
        units.append(ch)
    if style == 1:
        # split also inside surrogate pairs (a parser may do that at a buffer boundary)
        res = []
        for ch in units:
            b = ch.encode("utf-16-be")
            if len(b) == 4:
                res.append(b[:2].decode("utf-16-be", "surrogatepass"))
                res.append(b[2:].decode("utf-16-be", "surrogatepass"))
            else:
                res.append(ch)
        return res
    res, cur = [], ""
    for ch in units:
        if r.chance(1, 3):
            res.append(cur)
            cur = ""
            if r.chance(1, 5):
                res.append("")
        cur += ch
    res.append(cur)
    if r.chance(1, 4):
        res.append("")
    return res


def events_of(r, forest, style, use_iws, top):
    ev = []
    for nd in forest:
        if nd[0] == "t":
            for piece in fragment(r, nd[1], style):
                ev.append("C:" + hx(piece))
        elif nd[0] == "w":
            if use_iws and not top:
                ev.append("W:" + hx(nd[1]))
            else:
                for piece in fragment(r, nd[1], style):
                    ev.append("C:" + hx(piece))
        elif nd[0] == "m":
            ev.append("M:" + hx(nd[1]))
        elif nd[0] == "p":
            ev.append("P:%s:%s" % (hx(nd[1]), hx(nd[2])))
        else:
            ev.append("S:" + hx(nd[1]) + "".join(":%s=%s" % (hx(a), hx(v)) for a, v in nd[2]))
            ev += events_of(r, nd[3], style, use_iws, False)
            ev.append("E")
    return ev


def gen_sax_pair(r):
    """returns (events_a, events_b, cls).  Both are fragmentations of the same logical document."""
    cls = r.weighted([("doc", 12), ("dtd", 2), ("iws", 2), ("err-second-root", 1), ("err-top-text", 1)])
    pre = [nd for nd in gen_forest(r, 0, top=True) if nd[0] in ("m", "p", "w")]
    post = [nd for nd in gen_forest(r, 0, top=True) if nd[0] in ("m", "p", "w")]
    root = ("e", r.choice(NAMES), [(a, rand_text(r, 0, 3)) for a in r.shuffle(["id", "k"])[: r.range(0, 2)]],
            gen_forest(r, r.range(1, 3)))
    forest = pre + [root] + post
    if cls == "err-second-root":
        forest = forest + [("e", "b", [], [])]
    if cls == "err-top-text":
        forest = [("t", "x" + rand_text(r))] + forest
    use_iws = cls == "iws"
    sa, sb = r.choice([(0, 1), (0, 2), (2, 2), (1, 2)])
    # the same PRNG stream must not make the logical document differ: fragmenting consumes randomness only
    ea = events_of(r, forest, sa, use_iws, True)
    eb = events_of(r, forest, sb, use_iws, True)
    if cls == "dtd":
        dtd = ["D", "M:" + hx("in dtd"), "d"]
        ea = dtd + ea
        eb = dtd + eb
    return ea, eb, cls


def gen_wrap(r):
    """a DOM to be built node by node and wrapped eagerly: any forest (adjacent / empty text nodes allowed), attributes in
    name order (the order of a Xerces NamedNodeMap)"""
    forest = [nd for nd in gen_forest(r, 0, top=True) if nd[0] in ("m", "p")]
    forest.append(("e", r.choice(NAMES), [], gen_forest(r, r.range(1, 3))))
    forest += [nd for nd in gen_forest(r, 0, top=True) if nd[0] in ("m", "p")]

    def sort_attrs(f):
        out = []
        for nd in f:
            if nd[0] == "e":
                out.append(("e", nd[1], sorted(nd[2], key=lambda kv: kv[0].encode("utf-16-be")), sort_attrs(nd[3])))
            else:
                out.append(nd)
        return out
    ev = events_of(r, sort_attrs(forest), r.choice([0, 1, 2]), False, False)
    return ev


def gen_xdom(r):
    """result events for FormatterToXercesDOM: like gen_fst, attributes in name order, sometimes white space at document level"""
    ev, cls = gen_fst(r)
    out = []
    for e in ev:
        if e.startswith("S:"):
            f = e.split(":")
            out.append(":".join(f[:2] + sorted(f[2:], key=lambda nv: bytes.fromhex(nv.split("=")[0].replace("-", "")))))
        else:
            out.append(e)
    if r.chance(1, 4):
        out.insert(0, "C:" + hx(rand_ws(r)))
    if r.chance(1, 5):
        out.append("C:" + hx(rand_ws(r)))
    return out, cls.replace("fst", "xdom")


def gen_fst(r):
    """result-event history for FormatterToSourceTree: like a SAX stream, some character pieces sent as CDATA (K) or
    raw characters (R).  returns (events, cls)"""
    root = ("e", r.choice(NAMES), [(a, rand_text(r, 0, 3)) for a in r.shuffle(["id", "k"])[: r.range(0, 2)]],
            gen_forest(r, r.range(1, 3)))
    pre = [nd for nd in gen_forest(r, 0, top=True) if nd[0] in ("m", "p")]
    ev = events_of(r, pre + [root], r.choice([0, 1, 2]), r.chance(1, 4), True)
    kind = r.weighted([("plain", 3), ("cdata", 3), ("raw", 1)])
    out = []
    depth = 0
    for e in ev:
        if e.startswith("S:"):
            depth += 1
        elif e == "E":
            depth -= 1
        if e.startswith("C:") and depth > 0 and kind != "plain" and r.chance(1, 3):
            out.append(("K:" if kind == "cdata" else "R:") + e[2:])
        else:
            out.append(e)
    if not any(x.startswith(("K:", "R:")) for x in out):
        kind = "plain"
    return out, "fst-" + kind


def gen_pi(r, urlA, urlB):
    """children of the document before the document element for the `pi` request: up to three xml-stylesheet PIs made of
    pseudo-attributes in random order / quotes / white space, other PIs, comments.
    returns (tokens, expected 'A'|'B'|None per the xml-stylesheet Recommendation: first PI with an XSLT-capable type and an
    href, class)"""
    kids, expect, cls = [], None, "plain"
    inapplicable_seen = False
    for _ in range(r.range(1, 3)):
        k = r.weighted([("X", 6), ("O", 1), ("M", 1)])
        if k != "X":
            kids.append(k)
            continue
        typ = r.weighted([("text/xsl", 5), ("text/xml", 1), ("application/xml", 1), ("text/css", 2), (None, 1)])
        href = r.weighted([(urlA, 4), (urlB, 3), (None, 1)])
        attrs = []
        if typ is not None:
            attrs.append(("type", typ))
        if href is not None:
            attrs.append(("href", href))
        for n, v in r.shuffle([("title", "Main"), ("media", "screen"), ("charset", "UTF-8"), ("alternate", "no")])[: r.range(0, 2)]:
            attrs.append((n, v))
        attrs = r.shuffle(attrs)
        nl = r.chance(1, 6)
        parts = []
        for n, v in attrs:
            q = r.choice(['"', "'"])
            eq = r.choice(["=", "=", " = ", "= "])
            parts.append(n + eq + q + v + q)
        seps = [r.choice([" ", "  ", "\t", " \t"]) if not (nl and i == 0) else r.choice(["\n", "\r\n ", " \n\t"]) for i in range(len(parts))]
        data = "".join(p + (seps[i] if i + 1 < len(parts) else r.choice(["", " "])) for i, p in enumerate(parts))
        if nl and len(parts) > 1:
            cls = "newline"
        kids.append("X:" + hx(data))
        applicable = typ in ("text/xsl", "text/xml", "application/xml") and href is not None
        if expect is None and applicable:
            expect = "A" if href == urlA else "B"
            if inapplicable_seen and cls == "plain":
                cls = "inapplicable-first"
        elif expect is None and attrs:
            inapplicable_seen = True
    return kids, expect, cls


def gen_out_utf8(r):
    """print-writer history behind a real UTF-8 transcoder: well-formed UTF-16 text (pairs complete at every
    synchronisation point) cut into writes at arbitrary unit positions, small buffers.  returns (line, expected bytes)"""
    bufsize = r.choice([1, 2, 3, 4, 7, 512])
    ops = ["e"]
    expect = []
    for _ in range(r.range(1, 5)):
        txt = "".join(r.choice(["a", "\u00e9", "\u4e2d", "\U0001f600", "\U00010348", "z"]) for _ in range(r.range(1, 9)))
        if bufsize == 512 and r.chance(1, 2):
            txt = "a" * r.range(505, 515) + txt
        units = txt.encode("utf-16-be")
        us = [int.from_bytes(units[i:i + 2], "big") for i in range(0, len(units), 2)]
        i = 0
        while i < len(us):
            n = r.choice([1, 1, 2, 3, 5, bufsize + 1])
            piece = us[i:i + n]
            i += n
            if len(piece) == 1 and r.chance(1, 2):
                ops.append("c:%04x" % piece[0])
            else:
                ops.append("w:" + "".join("%04x" % u for u in piece))
        expect += list(txt.encode("utf-8"))
        k = r.weighted([("f", 2), ("n", 2), ("none", 1)])
        if k == "f":
            ops.append("f")
        elif k == "n":
            bs = [r.range(0x41, 0x5A) for _ in range(r.range(0, 3))]
            ops.append("n:" + ("".join("%02x" % b for b in bs) or "-"))
            expect += bs
        else:
            ops.append("f")
    return "out %d - %s %s" % (bufsize, r.choice(["0", "1"]), " ".join(ops)), expect


def gen_out(r):
    """print-writer history; returns (request line, expected concatenation as list of ints or None, cls)"""
    bufsize = r.choice([1, 2, 3, 4, 5, 8, 16, 512])
    mode = r.weighted([("ascii", 5), ("utf16", 3), ("narrow-only", 2)])
    budget = "-" if r.chance(4, 5) else str(r.range(0, 4))
    fh = r.choice(["0", "1"])
    ops = []
    utf16 = False
    expect = []
    n = r.range(1, 14)
    for i in range(n):
        k = r.weighted([("w", 5), ("c", 3), ("n", 4 if mode != "utf16" or True else 0), ("f", 2), ("u", 1 if mode == "utf16" else 0)])
        if mode == "narrow-only" and k in ("w", "c", "u"):
            k = "n"
        if k == "u":
            if utf16:
                continue
            utf16 = True
            ops.append("u")
            expect += [0xFF, 0xFE]
        elif k == "w":
            ln = r.choice([0, 1, 2, 3, bufsize, bufsize + 1, r.range(0, 12)])
            if utf16:
                us = [r.choice([0x41, 0xE9, 0x4E2D, 0xD83D, 0xDE00, 0x0A, 0x100]) for _ in range(ln)]
            else:
                us = [r.range(0x20, 0x7E) for _ in range(ln)]
            ops.append("w:" + ("".join("%04x" % u for u in us) or "-"))
            for u in us:
                expect += [u % 256, u // 256] if utf16 else [u]
        elif k == "c":
            u = r.choice([0x41, 0xE9, 0x4E2D]) if utf16 else r.range(0x20, 0x7E)
            ops.append("c:%04x" % u)
            expect += [u % 256, u // 256] if utf16 else [u]
        elif k == "n":
            bs = [r.range(1, 255) for _ in range(r.choice([0, 1, 2, 5, 9]))]
            ops.append("n:" + ("".join("%02x" % b for b in bs) or "-"))
            expect += bs
        else:
            ops.append("f")
    line = "out %d %s %s %s" % (bufsize, budget, fh, " ".join(ops))
    return line, expect, ("out-%s%s" % (mode, "" if budget == "-" else "-failing"))


# ------------------------------------------------------------------------------------------------------------
# forms stream: documents and stylesheets whose result depends on document order, keys, numbering

EL = ["a", "b", "c", "d", "p:e"]
WORDS = ["alpha", "beta", "gamma", "délta", "中文", "x<y", "a&b", "zeta ", " eps", "\U0001f600k"]


def xml_escape(s, attr=False):
    s = s.replace("&", "&amp;").replace("<", "&lt;").replace(">", "&gt;")
    if attr:
        s = s.replace('"', "&quot;").replace("\n", "&#10;").replace("\t", "&#9;")
    return s


RUN_LENGTHS = [1, 63, 64, 65, 200, 5000]


def run_length(r):
    return r.choice(RUN_LENGTHS)


def ws_run(r):
    """indentation-style white space: a line end followed by blanks (or tabs), total length at one of the thresholds"""
    n = run_length(r)
    return "\n" + r.choice([" ", " ", "\t"]) * (n - 1) if n > 1 else r.choice([" ", "\n"])


def gen_doc_tree(r, depth, budget):
    """returns xml text of element content"""
    out = []
    n = r.range(1, 4)
    for _ in range(n):
        if budget[0] <= 0:
            break
        k = r.weighted([("e", 6 if depth > 0 else 1), ("t", 4), ("c", 1), ("p", 1), ("ws", 2)])
        if k == "e":
            budget[0] -= 1
            name = r.choice(EL)
            attrs = ""
            if r.chance(2, 3):
                attrs += ' id="i%d"' % r.range(1, 6)
            if r.chance(1, 3):
                attrs += ' k="%s"' % xml_escape(r.choice(["u", "v", "w", "é"]), True)
            if r.chance(1, 6):
                attrs += ' xmlns:q="urn:q" q:z="1"'
            if r.chance(1, 12):
                attrs += ' long="%s"' % ("v" * run_length(r))
            inner = gen_doc_tree(r, depth - 1, budget) if depth > 0 and r.chance(3, 4) else ""
            out.append("<%s%s>%s</%s>" % (name, attrs, inner, name) if inner or r.chance(1, 2) else "<%s%s/>" % (name, attrs))
        elif k == "t":
            w = r.choice(WORDS)
            if r.chance(1, 8):
                w = (w + "-") * (run_length(r) // (len(w) + 1) + 1)      # a long text run
            out.append(xml_escape(w))
        elif k == "c":
            out.append("<!--%s-->" % (r.choice(["note", " c ", "x y"]) if not r.chance(1, 8) else "c" * run_length(r)))
        elif k == "p":
            out.append("<?%s %s?>" % (r.choice(["pi", "tgt"]), r.choice(["d", "a b", ""])))
        else:
            out.append(r.choice(["\n", "  ", "\n  \t", ws_run(r), ws_run(r)]))
    return "".join(out)


PROBES = [
    # (name, xslt fragment inside <out>, top-level declarations)
    ("union-order",
     '<u><xsl:for-each select="//a | //b//* | //@id | //comment() | //c | /*"><n t="{name()}" pr="{count(preceding::*)}" an="{count(ancestor::*)}" pos="{position()}"/></xsl:for-each></u>', ""),
    ("union-attr-ns",
     # attribute / namespace nodes of one element have no defined relative order: sort them by name inside their element
     '<u2><xsl:for-each select="//@* | //namespace::q | //processing-instruction()"><xsl:sort select="count(../preceding::*) + count(../ancestor::*)" data-type="number"/><xsl:sort select="name()"/><xsl:sort select="."/><n t="{name()}" v="{.}" on="{name(..)}"/></xsl:for-each></u2>', ""),
    ("preceding",
     '<pr><xsl:for-each select="//*"><n t="{name()}" p1="{name(preceding::*[1])}" f1="{name(following::*[1])}" ps="{count(preceding-sibling::node())}" pt="{preceding::text()[1]}"/></xsl:for-each></pr>', ""),
    ("number-any",
     '<na><xsl:for-each select="//*"><n t="{name()}"><xsl:number level="any" count="a|b|c"/>;<xsl:number level="multiple" count="*" format="1.a"/>;<xsl:number/></n></xsl:for-each></na>', ""),
    ("keys",
     '<ks><xsl:for-each select="//*[@id][count(. | key(\'kid\', @id)[1]) = 1]"><g id="{@id}" n="{count(key(\'kid\', @id))}"><xsl:for-each select="key(\'kid\', @id)"><m t="{name()}" pr="{count(preceding::*)}"/></xsl:for-each></g></xsl:for-each><kk><xsl:value-of select="count(key(\'kk\', \'u\') | key(\'kk\', \'v\'))"/></kk></ks>',
     '<xsl:key name="kid" match="*" use="@id"/><xsl:key name="kk" match="*[@k]" use="@k"/>'),
    ("sort",
     '<so><xsl:for-each select="//*"><xsl:sort select="@id"/><xsl:sort select="name()" order="descending"/><n t="{name()}" id="{@id}" pr="{count(preceding::*)}"/></xsl:for-each></so>', ""),
    ("copy",
     '<cp><xsl:copy-of select="/*"/></cp>', ""),
    ("text-nodes",
     '<tx><xsl:for-each select="//text()"><t l="{string-length(.)}" p="{count(preceding-sibling::node())}"><xsl:value-of select="."/></t></xsl:for-each><c><xsl:value-of select="count(//text())"/>,<xsl:value-of select="count(//node())"/></c></tx>', ""),
    ("last-first",
     '<lf a="{name((//*)[last()])}" b="{name((//a | //b)[1])}" c="{count((//c | //d)[1]/preceding::node())}" d="{name((//@id)[last()]/..)}" e="{(//text())[last()]}"/>', ""),
    ("apply",
     '<ap><xsl:apply-templates select="//b | //a" mode="m"/></ap>',
     '<xsl:template match="*" mode="m"><x t="{name()}" gi="{generate-id(.) = generate-id((//*)[1])}"><xsl:apply-templates select="ancestor::*[1] | following-sibling::*[1]" mode="m2"/></x></xsl:template><xsl:template match="*" mode="m2"><y t="{name()}" id="{@id}"/></xsl:template>'),
    ("id-fn",
     # id() with forward references: only attributes *declared* ID count (IDREF/IDREFS must not)
     '<idf><xsl:for-each select="id(\'n1 n3 n2 zz\') | id(//@ref) | id(//@refs)"><n t="{name()}" x="{@x}" pr="{count(preceding::*)}"/></xsl:for-each>'
     '<c a="{count(id(\'r1\'))}" b="{count(id(\'n2\')/..)}" c="{name(id(//*[@ref][1]/@ref))}"/></idf>', ""),
    ("doe-long",
     # one run of 513..8192 characters written with disable-output-escaping after ordinary buffered text
     '<dl>head&lt;<xsl:value-of disable-output-escaping="yes" select="$LONG"/>&amp;tail<xsl:value-of disable-output-escaping="yes" select="substring($LONG, 1, 700)"/>end</dl>',
     '<xsl:variable name="L8" select="concat(\'@PIECE@\', //text()[1], \'0123456789abcdefghijklmnopqrstuvwxyzABCDEFGHIJKLMNOPQRSTUVWXYZ-+\')"/>'
     '<xsl:variable name="L64" select="concat($L8,$L8,$L8,$L8,$L8,$L8,$L8,$L8)"/>'
     '<xsl:variable name="LONG" select="substring(concat($L64,$L64,$L64,$L64,$L64,$L64,$L64,$L64,$L64,$L64,$L64,$L64,$L64,$L64,$L64,$L64), 1, @LEN@)"/>'),
    ("ns-axis",
     # the namespace axis: declarations in scope of every element.  The implicit `xml` namespace node is left out here: a
     # Xerces-DOM source has none (known finding C05-dom-xml-namespace-node, exercised by its own corpus case), and any
     # *other* difference on this axis must still alarm
     '<nx><xsl:for-each select="//*"><n t="{name()}" c="{count(namespace::*[name() != \'xml\'])}"><xsl:for-each select="namespace::*[name() != \'xml\']"><xsl:sort select="name()"/>'
     '<ns p="{name()}" u="{.}" on="{name(..)}"/></xsl:for-each></n></xsl:for-each><r y="{count(//namespace::*[name() != \'xml\'])}" z="{count(//namespace::p | //namespace::q)}"/></nx>', ""),
    ("src-info",
     # what a source form carries beyond the element tree: DTD default / fixed attribute values, ID-ness, entity-expanded
     # text, xml:lang / xml:space inheritance, the document's base URI
     '<si d="{count(//@dflt)}:{count(//@fx)}:{//n[1]/@dflt}:{(//n[@dflt != \'def-val\'])[1]/@dflt}" idn="{name(id(\'n1\'))}:{count(id(\'n1 r1 zz\'))}" '
     'tx="{//n[1]}" ntx="{string-length(//n[1])}" ct="{count(//n[1]/text())}" lg="{count(//*[lang(\'de\')])}:{count(//*[lang(\'en\')])}" '
     'rel="{document(\'rel.xml\', /)/rel}">'
     '<xsl:for-each select="//*[@xml:space]"><sp v="{@xml:space}" t="{count(text())}" d="{count(.//text())}"/></xsl:for-each></si>', ""),
    ("unparsed",
     # DTD-declared unparsed (NDATA) entities, by literal name and through ENTITY-typed attributes
     '<ue ue1="{unparsed-entity-uri(\'pic1\')}" ue2="{unparsed-entity-uri(\'pic2\')}" ue0="{unparsed-entity-uri(\'nope\')}" uet="{unparsed-entity-uri(\'txt\')}">'
     '<xsl:for-each select="//*[@img]"><e n="{@img}" u="{unparsed-entity-uri(@img)}"/></xsl:for-each></ue>', ""),
    ("doc-level",
     # children of the root node: prolog / epilog comments and PIs around the document element, forward and reverse axes
     '<dl l="{name(/node()[last()])}|{/node()[last()]}" c="{count(/node())}" fs="{count(/*/following-sibling::node())}" '
     'ps="{count(/*/preceding-sibling::node())}" fl="{name(/*/following-sibling::node()[last()])}|{/*/following-sibling::node()[last()]}" '
     'pc="{count(/node()[last()]/preceding-sibling::node())}" pp="{count(/node()[last()]/preceding::node())}" '
     'fo="{count((//*)[last()]/following::node())}" lc="{count(/comment())}:{count(/processing-instruction())}">'
     # xsl:number level="any" walks backwards through the document with getLastChild()/getPreviousSibling()
     '<xsl:for-each select="/comment() | /processing-instruction() | /* | (//*)[last()] | (//comment())[last()]">'
     '<k t="{name()}"><xsl:number level="any" count="comment()|processing-instruction()|*"/>:<xsl:number level="any" count="node()"/>:'
     '<xsl:number level="any" count="comment()" from="/"/></k></xsl:for-each></dl>', ""),
    ("ws-count",
     # white-space-only text nodes, as xsl:strip-space / xsl:preserve-space leave them, with their lengths
     '<wc><xsl:for-each select="//*"><n t="{name()}" c="{count(text())}" w="{count(text()[not(normalize-space())])}" '
     'l="{string-length(text()[not(normalize-space())][1])}" s="{string-length(.)}"/></xsl:for-each>'
     '<a l="{string-length((//@long)[1])}" c="{string-length((//comment())[1])}"/></wc>', ""),
    ("id-lang",
     '<il><xsl:for-each select="//*[lang(\'en\')]"><n t="{name()}"/></xsl:for-each></il>', ""),
]

def gen_output(r):
    """a random xsl:output declaration over every attribute of XSLT 1.0 section 16.
    returns (mode, declaration): mode xml = result may also be compared as a tree; xml16 = UTF-16; bytes = raw bytes only
    (indent adds white space; html / text are not XML; a DOCTYPE with a system identifier cannot be re-parsed offline)"""
    if r.chance(1, 6):
        return "xml", ""
    method = r.weighted([("xml", 7), (None, 2), ("html", 2), ("text", 1)])
    attrs = []
    mode = "xml"
    if method is not None:
        attrs.append('method="%s"' % method)
    if method in ("html", "text"):
        mode = "bytes"
    enc = r.weighted([(None, 4), ("UTF-8", 1), ("ISO-8859-1", 2), ("US-ASCII", 2), ("UTF-16", 2 if method != "text" else 0)])
    if enc:
        attrs.append('encoding="%s"' % enc)
        if enc == "UTF-16":
            mode = "xml16" if mode == "xml" else "bytes16"
    if method != "text":
        if r.chance(1, 2):
            attrs.append('cdata-section-elements="%s"' % r.choice(["cd", "cd t", "t m cd n", "cd e"]))
        if r.chance(1, 4):
            attrs.append('indent="%s"' % r.choice(["yes", "no"]))
            if attrs[-1] == 'indent="yes"':
                mode = "bytes" if mode != "xml16" else "bytes16"
        if r.chance(1, 4):
            attrs.append('omit-xml-declaration="%s"' % r.choice(["yes", "no"]))
            if attrs[-1].endswith('"yes"') and enc in ("UTF-16", "ISO-8859-1"):
                attrs.pop()         # the result could not be read back without its declaration
        if r.chance(1, 5):
            attrs.append('standalone="%s"' % r.choice(["yes", "no"]))
        if r.chance(1, 5):
            attrs.append('doctype-public="-//C05//DTD out//EN"')
            attrs.append('doctype-system="out.dtd"')
            mode = "bytes" if mode in ("xml", "bytes") else "bytes16"
        elif r.chance(1, 8):
            attrs.append('doctype-system="out.dtd"')
            mode = "bytes" if mode in ("xml", "bytes") else "bytes16"
        if r.chance(1, 6):
            attrs.append('media-type="%s"' % r.choice(["text/xml", "application/xml", "text/html"]))
        if r.chance(1, 8) and method in ("xml", None):
            attrs.append('version="1.0"')
    else:
        if r.chance(1, 3):
            attrs.append('media-type="text/plain"')
    return mode, "<xsl:output %s/>" % " ".join(r.shuffle(attrs)) if attrs else ""


PI_VARIANTS = ["base", "href-first", "single-quotes", "spaces", "extras", "extras-href-first", "text-xml", "application-xml",
               "two-xsl", "after-misc", "nl-sep", "css-first", "title-keyword"]


def stylesheet_pi(variant, r, absdir):
    """the xml-stylesheet processing instruction(s) of the document, lexically varied as the xml-stylesheet
    Recommendation allows (pseudo-attributes in any order, either quote, any white space, several PIs).  The stylesheet
    meant is always <absdir>/style.xsl.  returns the prolog text."""
    href = "file://%s/style.xsl" % absdir
    other = "file://%s/other.xsl" % absdir      # a different stylesheet that must NOT be chosen
    q = lambda v, c='"': c + v + c
    if variant == "base":
        return '<?xml-stylesheet type="text/xsl" href="%s"?>\n' % href
    if variant == "href-first":
        return '<?xml-stylesheet href="%s" type="text/xsl"?>\n' % href
    if variant == "single-quotes":
        return "<?xml-stylesheet %s?>\n" % " ".join(r.shuffle(["type='text/xsl'", "href='%s'" % href]))
    if variant == "spaces":
        sep = r.choice(["  ", "\t", " \t "])
        return "<?xml-stylesheet   " + sep.join(r.shuffle(["type = \"text/xsl\"", "href =\"%s\"" % href])) + "  ?>\n"
    if variant in ("extras", "extras-href-first"):
        extras = ['title="Main"', 'media="screen"', 'charset="UTF-8"', 'alternate="no"']
        core = ['type="text/xsl"', 'href="%s"' % href]
        if variant == "extras-href-first":
            core.reverse()
            parts = extras[:2] + [core[0]] + extras[2:3] + [core[1]] + extras[3:]
        else:
            parts = r.shuffle(extras[: r.range(1, 4)] + core)
        return "<?xml-stylesheet %s?>\n" % " ".join(parts)
    if variant == "text-xml":
        return "<?xml-stylesheet %s?>\n" % " ".join(r.shuffle(['type="text/xml"', 'href="%s"' % href]))
    if variant == "application-xml":
        return "<?xml-stylesheet %s?>\n" % " ".join(r.shuffle(['type="application/xml"', 'href="%s"' % href]))
    if variant == "two-xsl":        # several applicable PIs: the first one is used
        return ('<?xml-stylesheet type="text/xsl" href="%s"?>\n<?xml-stylesheet href="%s" type="text/xsl"?>\n' % (href, other))
    if variant == "after-misc":
        return '<!-- a comment first -->\n<?other pi?>\n<?xml-stylesheet href="%s" type="text/xsl"?>\n' % href
    if variant == "nl-sep":         # S in the pseudo-attribute grammar includes line ends
        return '<?xml-stylesheet type="text/xsl"\n                 href="%s"?>\n' % href
    if variant == "css-first":      # a PI for another kind of stylesheet comes first: not applicable, the next one is
        return ('<?xml-stylesheet type="text/css" href="file://%s/look.css"?>\n<?xml-stylesheet type="text/xsl" href="%s"?>\n' % (absdir, href))
    if variant == "title-keyword":  # a pseudo-attribute value that contains the words type / href
        return '<?xml-stylesheet title="the type of href" type="text/xsl" href="%s"?>\n' % href
    raise ValueError(variant)


OTHER_XSL = ('<?xml version="1.0"?>\n<xsl:stylesheet version="1.0" xmlns:xsl="http://www.w3.org/1999/XSL/Transform">'
             '<xsl:template match="/"><wrong-stylesheet/></xsl:template></xsl:stylesheet>\n')


def dtd_rich(r):
    """internal DTD subset with notations, unparsed (NDATA) entities, an internal text entity, an entity holding an element, ID /
    ENTITY / defaulted / #FIXED attributes; no CDATA sections, entity references are expanded by every parser configuration
    used: may be given as a DOM.  returns (doctype, body, extra root attributes)"""
    doctype = ('<!DOCTYPE r [\n<!NOTATION gif SYSTEM "image/gif">\n<!NOTATION jpg PUBLIC "-//X//NOTATION JPG//EN" "viewer.exe">\n'
               '<!ENTITY pic1 SYSTEM "pics/one.gif" NDATA gif>\n<!ENTITY pic2 SYSTEM "http://example.org/img/two.jpg" NDATA jpg>\n'
               '<!ENTITY txt "expanded &amp; text">\n<!ENTITY el "<c id=\'ie\'>from entity</c>">\n'
               '<!ATTLIST n x ID #IMPLIED img ENTITY #IMPLIED dflt CDATA "def-val" fx CDATA #FIXED "fixed">\n'
               '<!ATTLIST r x ID #IMPLIED>\n]>\n')
    ids = r.shuffle(["n1", "n2", "n3"])
    parts = ['<n img="pic1" x="%s">a&txt;b</n>' % ids[0],
             '<n img="pic2" dflt="given" x="%s">%s</n>' % (ids[1], r.choice(["", "q&txt;", "&txt;&txt;"])),
             '&el;',
             '<n xml:lang="de" xml:space="preserve"> <n/> \n<n xml:space="default" xml:lang="en-GB"> <n x="%s"/> </n></n>' % ids[2]]
    body = "".join(parts[:2]) + "".join(r.shuffle(parts[2:]))
    return doctype, body, ' x="r1"'


def dtd_valid_doc(r, absdir, pi):
    """a *valid* document: complete internal DTD with element-only content models, so that a validating parser reports the
    indentation between elements as ignorable white space (which every source form must keep as text nodes)"""
    doctype = ('<!DOCTYPE r [\n<!ELEMENT r (a | b | c)*>\n<!ELEMENT a (b*, c?)>\n<!ELEMENT b (#PCDATA)>\n<!ELEMENT c (#PCDATA | b)*>\n'
               '<!ATTLIST r id CDATA #IMPLIED x ID #IMPLIED>\n<!ATTLIST a id CDATA #IMPLIED k CDATA "dk">\n'
               '<!ATTLIST b id CDATA #IMPLIED>\n<!ATTLIST c id CDATA #IMPLIED>\n]>\n')

    def ind(n):
        return r.choice(["\n" + "  " * n, "\n" + "\t" * n, " ", ws_run(r)])
    parts = []
    for _ in range(r.range(2, 5)):
        k = r.choice("abc")
        if k == "a":
            bs = "".join(ind(2) + '<b id="i%d">%s</b>' % (r.range(1, 5), xml_escape(r.choice(WORDS))) for _ in range(r.range(0, 3)))
            cc = (ind(2) + "<c>mixed %s<b>in</b> tail </c>" % ind(3)) if r.chance(1, 2) else ""
            parts.append(ind(1) + '<a id="i%d">%s%s%s</a>' % (r.range(1, 5), bs, cc, ind(1)))
        elif k == "b":
            parts.append(ind(1) + "<b>%s</b>" % xml_escape(r.choice(WORDS)))
        else:
            parts.append(ind(1) + "<c>%s<b/> x</c>" % ind(2))
    return '<?xml version="1.0" encoding="UTF-8"?>\n' + doctype + pi + '<r id="i0" x="r1">%s\n</r>\n' % "".join(parts)


def gen_opts(r, outdecl, cls):
    """per-call options that every API layer sets in its own way (C++: XalanTransformer setters; command line: -i -e -u -m -v).
    Boundary values included: indent amount 0."""
    opts = []
    if r.chance(1, 3):
        opts.append(("indent", r.choice([0, 0, 1, 2])))
    if r.chance(1, 5) and "UTF-16" not in outdecl:
        opts.append(("encoding", r.choice(["ISO-8859-1", "US-ASCII", "UTF-8"])))
    if 'method="html"' in outdecl:
        if r.chance(1, 2):
            opts.append(("noescape", ""))
        if r.chance(1, 2):
            opts.append(("omitmeta", ""))
    if cls == "dtd-valid":
        opts.append(("validate", ""))
    return opts or None


def gen_case(r, i, absdir):
    """returns dict(xml, xsl, mode, cls, probes).  absdir: directory the files will be written to (for the PI href)"""
    cls = r.weighted([("order", 12), ("cdata-entity", 3), ("strip", 2), ("error", 1), ("big", 2), ("dtd-id", 3), ("dtd-rich", 4), ("dtd-valid", 4)])
    budget = [r.range(4, 14) if cls != "big" else r.range(40, 90)]
    body = gen_doc_tree(r, r.range(2, 4), budget)
    rootattrs = ' xmlns:p="urn:p" id="i0"'
    if r.chance(1, 3):
        rootattrs += ' xml:lang="en"'
    prolog = '<?xml version="1.0" encoding="UTF-8"?>\n'
    doctype = ""
    if cls == "cdata-entity":
        doctype = '<!DOCTYPE r [<!ENTITY ent "entity&#32;text"><!ENTITY e2 "<c id=\'i9\'>from entity</c>">]>\n'
        body = body + "&ent;<![CDATA[cd<at>a]]>tail&e2;<a><![CDATA[]]>x<![CDATA[y]]></a>"
    if cls == "dtd-id":
        # DTD-declared ID / IDREF / IDREFS attributes with forward references; no entities, no CDATA: may be given as a DOM
        doctype = ('<!DOCTYPE r [<!ATTLIST n x ID #IMPLIED ref IDREF #IMPLIED refs IDREFS #IMPLIED>'
                   '<!ATTLIST r x ID #IMPLIED>]>\n')
        ids = r.shuffle(["n1", "n2", "n3", "n4"])
        body = ('<n ref="%s" refs="%s %s">fwd</n>' % (ids[0], ids[1], ids[2]) + body +
                "".join('<n x="%s"%s>t%s<n x="in%s"/></n>' % (i, (' ref="%s"' % r.choice(ids)) if r.chance(1, 2) else "", i, i) for i in ids[:r.range(2, 4)]) +
                '<n refs="in%s n9"/>' % ids[0])
        rootattrs += ' x="r1"'
    if cls == "dtd-rich":
        doctype, body2, ra = dtd_rich(r)
        body = body2 + body
        rootattrs += ra
    misc = r.choice(["", "<!--top-->\n", "<?toppi x?>\n"])
    pivar = r.weighted([("base", 4), ("href-first", 3), ("single-quotes", 2), ("spaces", 2), ("extras", 3), ("extras-href-first", 2),
                        ("text-xml", 1), ("application-xml", 1), ("two-xsl", 2), ("after-misc", 2), ("nl-sep", 1), ("css-first", 1),
                        ("title-keyword", 1)])
    pi = stylesheet_pi(pivar, r, absdir)
    if cls == "dtd-valid":
        xml_valid = dtd_valid_doc(r, absdir, pi)
    xml = prolog + doctype + misc + pi + "<r%s>%s</r>" % (rootattrs, body) + r.choice(["", "\n", "\n<!--after-->", "\n<!--after--><?end pi?>\n", "<?end pi?><!--last-->"])
    if cls == "dtd-valid":
        xml = xml_valid
    mode, outdecl = gen_output(r)
    utf16 = mode in ("xml16", "bytes16")
    opts = gen_opts(r, outdecl, cls)
    if opts and any(k == "indent" for k, _ in opts) and mode in ("xml", "xml16"):
        mode = "bytes" if mode == "xml" else "bytes16"       # setIndent(n) switches indenting on: bytes only
    nprobes = r.range(1, 4) if cls != "big" else r.range(3, 6)
    probes = r.shuffle(PROBES)[:nprobes]
    byname = dict((p[0], p) for p in PROBES)
    if cls == "dtd-id":
        # a Xerces DOM exposes the DOCTYPE as a child node of the document (known finding C05-dom-doctype-node, exercised by its
        # own corpus case): keep node()-counting probes out of these cases so that any *other* difference still alarms
        probes = [p for p in probes if p[0] not in ("preceding", "last-first", "text-nodes")] or [byname["union-order"]]
    nodom_unparsed = False
    if cls == "dtd-rich":
        probes = [p for p in probes if p[0] not in ("src-info", "unparsed")] + [byname["src-info"]]
        # unparsed-entity-uri() is empty on every Xerces-DOM source (known finding C05-dom-unparsed-entity-uri, own corpus
        # case): generated cases observe it on the native forms only, so that the document builder, file, stream and
        # pre-parsed forms are compared and any other DOM difference still alarms in the other half of the cases
        if r.chance(1, 2):
            nodom_unparsed = True
            probes.append(byname["unparsed"])
    else:
        probes = [p for p in probes if p[0] not in ("src-info", "unparsed")] or [byname["union-order"]]
    if cls == "dtd-id" and "id-fn" not in [p[0] for p in probes]:
        probes.append(byname["id-fn"])
    if mode in ("xml16", "xml") and r.chance(1, 3) and "doe-long" not in [p[0] for p in probes]:
        probes.append(byname["doe-long"])      # long raw runs, most interesting with UTF-16 (wide writes through the stream buffer)
    notree = "doe-long" in [p[0] for p in probes]
    if notree:
        # raw output is a serialisation feature: tree targets legitimately differ (<?Xalan raw?> marker); bytes only
        probes = [p for p in probes if p[0] != "copy"]
    doe_len = r.choice([513, 600, 1025, 3000, 8192, r.range(513, 8192)])
    probes = [(p[0], p[1], p[2].replace("@LEN@", str(doe_len)).replace("@PIECE@", r.choice(["ab", "xy ", "\u00e9\u4e2d"]))) for p in probes]
    if mode in ("bytes", "bytes16"):
        # html/text/indent/doctype results are compared as raw bytes across tree implementations: keep attribute order out of them
        probes = [p for p in probes if p[0] != "copy"] or [PROBES[0]]
    if mode == "bytes16":
        mode, notree = "xml16", True
    decls = "".join(p[2] for p in probes)
    if cls == "strip" or (cls == "dtd-rich" and r.chance(1, 2)):
        decls += '<xsl:strip-space elements="*"/><xsl:preserve-space elements="b"/>'
    # every result has character data that needs escaping inside an element that cdata-section-elements may name, so that
    # the lexical form chosen by xsl:output (CDATA section vs escaped text) is visible in the bytes of every stylesheet form
    inner = ('<cd>one &lt; two &amp; <xsl:value-of select="(//text()[normalize-space()])[1]"/>]]&gt;</cd>' +
             "".join(p[1] for p in probes))
    params = None
    if r.chance(1, 3) and cls != "dtd-id":
        # top-level parameters set through XalanTransformer::setStylesheetParam / XalanSetStylesheetParam / Xalan -p
        params = [("P", "'%s'" % r.choice(["abc", "x y", "q-1"])), ("N", str(r.range(2, 40)))]
        if r.chance(1, 2):
            params.append(("S", "//*[@id][%d]" % r.range(1, 3)))    # expression evaluated against the source document
        decls += '<xsl:param name="P" select="\'dflt\'"/><xsl:param name="N" select="1"/><xsl:param name="S" select="/.."/>'
        inner += '<pp p="{$P}" n="{$N * 2 + 1}" s="{name($S)}" sc="{count($S/preceding::node())}"/>'
    if cls == "error":
        inner += '<xsl:if test="count(//*) &gt; 0"><xsl:message terminate="yes">stop</xsl:message></xsl:if>'
    if "method=\"text\"" in outdecl or "method=\"html\"" in outdecl:
        root = '<html><body>%s</body></html>' % inner if "html" in outdecl else inner
    else:
        root = "<out>%s</out>" % inner
    xsl = ('<?xml version="1.0"?>\n<xsl:stylesheet version="1.0" xmlns:xsl="http://www.w3.org/1999/XSL/Transform" '
           'xmlns:p="urn:p" xmlns:q="urn:q" exclude-result-prefixes="p q">\n%s%s\n<xsl:template match="/">%s</xsl:template>\n</xsl:stylesheet>\n'
           % (outdecl, decls, root))
    return {"xml": xml, "xsl": xsl, "mode": mode, "cls": cls, "probes": [p[0] for p in probes] + (["params"] if params else []), "nodom": cls == "cdata-entity" or nodom_unparsed, "params": params, "notree": notree, "pi": pivar, "opts": opts, "needbase": cls == "dtd-rich",
            "rel_xml": "<?xml version=\"1.0\"?>\n<rel>R-%d</rel>\n" % i if cls == "dtd-rich" else None, "other_xsl": OTHER_XSL,
            "out": (outdecl.split(" ", 1)[1].rstrip("/>").replace(" ", ",").replace('"', "") if outdecl else "-")}
