"""C04: transcoder-backed multi-byte and STATEFUL output encodings (ISO-2022-JP, ISO-2022-KR, Shift_JIS, EUC-JP, EUC-KR,
GB2312, GBK, Big5, UTF-7, SCSU).  The Lean model does not contain these converters; the property is judged on the real
bytes with decoders that share nothing with the code under test: Python's codecs (and the SCSU decoder below, written
from UTS #6), then an expat re-parse of the decoded text.

Scripts: text that alternates character classes (ASCII / kana / ideographs / hangul / Latin-1) so that the converter's
shift state differs from the initial state at the 512-unit chunk boundaries of XalanOtherEncodingWriter /
XalanOutputStream, over at least three chunks (the stream transcodes chunk n only when chunk n+1 arrives, i.e. after the
writer has asked canTranscodeTo() about the characters of chunk n+1)."""
import importlib.util
import os
import xml.parsers.expat

_spec = importlib.util.spec_from_file_location("c04_docs", os.path.join(os.path.dirname(os.path.abspath(__file__)), "c04_docs.py"))
G = importlib.util.module_from_spec(_spec)
_spec.loader.exec_module(G)

KANA = [0x30A2, 0x30A4, 0x30A6, 0x3042, 0x3044, 0x30F3]
KANJI = [0x65E5, 0x672C, 0x8A9E, 0x6F22, 0x5B57, 0x4E2D]
HANGUL = [0xD55C, 0xAE00, 0xAC00, 0xB098, 0xB2E4]
HAN_S = [0x4E2D, 0x6587, 0x5B57, 0x7B26, 0x6C49]       # in GB2312
HAN_T = [0x4E2D, 0x6587, 0x5B57, 0x7B26, 0x6F22]       # in Big5
LATIN = [0xE9, 0xE0, 0xFC, 0xF1]
CYR = [0x416, 0x434, 0x44F, 0x401]
ASCII = [ord(c) for c in "abcxyz 019.,"]

# name given to the serializer -> (python codec or None = SCSU, character classes beside ASCII)
ENCODINGS = {
    "ISO-2022-JP": ("iso2022_jp", [KANA, KANJI]),
    "ISO-2022-KR": ("iso2022_kr", [HANGUL, KANA]),
    "Shift_JIS": ("shift_jis", [KANA, KANJI]),
    "EUC-JP": ("euc_jp", [KANA, KANJI]),
    "EUC-KR": ("euc_kr", [HANGUL, KANA]),
    "GB2312": ("gb2312", [HAN_S, KANA]),
    "GBK": ("gbk", [HAN_S, KANA]),
    "Big5": ("big5", [HAN_T, CYR]),
    "UTF-7": ("utf_7", [KANA, LATIN, HANGUL]),
    "SCSU": (None, [KANA, LATIN, CYR, KANJI]),
}
# BOCU-1 is not generated: it does not keep ASCII letters, so no parser can read the XML declaration that names it.


# ---- SCSU decoder (UTS #6), independent of ICU ------------------------------------------------------------------
_SCSU_STATIC = [0x0000, 0x0080, 0x0100, 0x0300, 0x2000, 0x2080, 0x2100, 0x3000]
_SCSU_INITIAL = [0x0080, 0x00C0, 0x0400, 0x0600, 0x0900, 0x3040, 0x30A0, 0xFF00]
_SCSU_SPECIAL = {0xF9: 0x00C0, 0xFA: 0x0250, 0xFB: 0x0370, 0xFC: 0x0530, 0xFD: 0x3040, 0xFE: 0x30A0, 0xFF: 0xFF60}


def _scsu_offset(x):
    if 1 <= x <= 0x67:
        return x * 0x80
    if 0x68 <= x <= 0xA7:
        return x * 0x80 + 0xAC00
    if x in _SCSU_SPECIAL:
        return _SCSU_SPECIAL[x]
    raise ValueError("SCSU: reserved window offset byte 0x%02X" % x)


def scsu_decode(b):
    """bytes -> list of UTF-16 code units; ValueError on a malformed stream"""
    dyn = list(_SCSU_INITIAL)
    active = 0
    out = []
    i, n = 0, len(b)

    def put(cp):
        if cp > 0xFFFF:
            cp -= 0x10000
            out.extend([0xD800 + (cp >> 10), 0xDC00 + (cp & 0x3FF)])
        else:
            out.append(cp)

    def need(k):
        if i + k > n:
            raise ValueError("SCSU: truncated")
    single = True
    while i < n:
        c = b[i]; i += 1
        if single:
            if c >= 0x80:
                put(dyn[active] + (c - 0x80))
            elif c >= 0x20 or c in (0x00, 0x09, 0x0A, 0x0D):
                out.append(c)
            elif 0x01 <= c <= 0x08:                       # SQn
                need(1); d = b[i]; i += 1
                put(_SCSU_STATIC[c - 1] + d if d < 0x80 else dyn[c - 1] + (d - 0x80))
            elif c == 0x0B:                               # SDX
                need(2); hi, lo = b[i], b[i + 1]; i += 2
                active = hi >> 5
                dyn[active] = 0x10000 + (((hi & 0x1F) << 8 | lo) * 0x80)
            elif c == 0x0E:                               # SQU
                need(2); out.append(b[i] << 8 | b[i + 1]); i += 2
            elif c == 0x0F:                               # SCU
                single = False
            elif 0x10 <= c <= 0x17:                       # SCn
                active = c - 0x10
            elif 0x18 <= c <= 0x1F:                       # SDn
                need(1); active = c - 0x18; dyn[active] = _scsu_offset(b[i]); i += 1
            else:
                raise ValueError("SCSU: reserved tag 0x%02X" % c)
        else:
            if 0xE0 <= c <= 0xE7:                         # UCn
                active = c - 0xE0; single = True
            elif 0xE8 <= c <= 0xEF:                       # UDn
                need(1); active = c - 0xE8; dyn[active] = _scsu_offset(b[i]); i += 1; single = True
            elif c == 0xF0:                               # UQU
                need(2); out.append(b[i] << 8 | b[i + 1]); i += 2
            elif c == 0xF1:                               # UDX
                need(2); hi, lo = b[i], b[i + 1]; i += 2
                active = hi >> 5
                dyn[active] = 0x10000 + (((hi & 0x1F) << 8 | lo) * 0x80); single = True
            elif c == 0xF2:
                raise ValueError("SCSU: reserved tag 0xF2")
            else:
                need(1); out.append(c << 8 | b[i]); i += 1
    return out


def decode(enc, data):
    """the output bytes as text, decoded strictly by a decoder independent of the serializer; raises on malformed input"""
    codec = ENCODINGS[enc][0]
    if codec is None:
        units = scsu_decode(data)
        return b"".join(u.to_bytes(2, "little") for u in units).decode("utf-16-le", "strict")
    return data.decode(codec, "strict")


def reparse(text):
    """canonical event tokens (the harness's / G.expected's syntax) of the decoded document, by expat"""
    i = text.find("?>") if text.startswith("<?xml") else -1
    if i >= 0:
        text = text[i + 2:]
    toks = []

    def txt(s):
        if toks and toks[-1].startswith("t:"):
            toks[-1] = "t:" + G.hx(G.unhx(toks[-1][2:]) + G.u(s))
        else:
            toks.append("t:" + G.hx(G.u(s)))
    p = xml.parsers.expat.ParserCreate()
    p.ordered_attributes = True
    p.buffer_text = False
    p.StartElementHandler = lambda n, a: toks.append("s:" + ":".join(
        [G.hx(G.u(n))] + [G.hx(G.u(a[k])) + "=" + G.hx(G.u(a[k + 1])) for k in range(0, len(a), 2)]))
    p.EndElementHandler = lambda n: toks.append("e:" + G.hx(G.u(n)))
    p.CharacterDataHandler = txt
    p.CommentHandler = lambda d: toks.append("m:" + G.hx(G.u(d)))
    p.ProcessingInstructionHandler = lambda t, d: toks.append("p:%s:%s" % (G.hx(G.u(t)), G.hx(G.u(d))))
    p.Parse(text.encode("utf-8"), True)
    return toks


def header_len(enc):
    return len('<?xml version="1.0" encoding="%s"?><r>' % enc)


def _alternating(r, classes, total):
    """runs of 1..40 units, the class changing at every run"""
    out, last = [], None
    while len(out) < total:
        cls = r.choice([c for c in [ASCII] + classes if c is not last])
        last = cls
        out += [r.choice(cls) for _ in range(r.range(1, 41))]
    return out[:total]


def scripts(r, enc, thorough):
    """(name, document) pairs"""
    classes = ENCODINGS[enc][1]
    hdr = header_len(enc)
    el = lambda *kids, **kw: ("el", G.u("r"), kw.get("attrs", []), list(kids))
    out = []
    # directed: chunk k ends inside a run of class X (m units of it before the boundary), ASCII follows, and enough
    # text follows for two more chunks
    for k in (1, 2):
        for m in ((1, 5) if not thorough else (1, 2, 5, 40)):
            for ci, cls in enumerate(classes):
                pre = [97] * (512 * k - hdr - m)
                text = pre + [cls[j % len(cls)] for j in range(m)] + [98] * 700 + [cls[0]] * 3 + [99] * 500
                out.append(("boundary:k%d:m%d:c%d" % (k, m, ci), el(("t", text, None))))
    # the same inside an attribute value
    cls = classes[0]
    v = [97] * (512 - hdr - 6 - 3) + [cls[0]] * 3 + [98] * 1200
    out.append(("boundary-attr", ("el", G.u("r"), [(G.u("k"), v)], [("t", G.u("z"), None)])))
    # random alternation over 3..6 chunks, as one text node and as several elements
    for q in range(12 if thorough else 4):
        total = r.range(1300, 3000)
        out.append(("alternating:%d" % q, el(("t", _alternating(r, classes, total), None))))
    for q in range(6 if thorough else 2):
        kids = []
        for _ in range(r.range(4, 9)):
            kids.append(("el", G.u("e"), [(G.u("a"), _alternating(r, classes, r.range(20, 200)))],
                         [("t", _alternating(r, classes, r.range(100, 500)), None)]))
        out.append(("elements:%d" % q, el(*kids)))
    # a short document: the state at the very beginning (stream header of the converter, first designation)
    out.append(("short", el(("t", G.u("abc") + [classes[0][0], classes[0][1]] + G.u("def"), None))))
    return out


# ---- single-byte encodings beside ISO-8859-1 / US-ASCII (getMaximumCharacterValue of the legacy serializer) ----------
# (ISO-8859-16 is not known to this ICU: the serializer falls back to UTF-8 and says so in the declaration)
SINGLE_BYTE = dict([("ISO-8859-%d" % n, "iso8859_%d" % n) for n in (2, 3, 4, 5, 6, 7, 8, 9, 10, 11, 13, 14, 15)] +
                   [("windows-125%d" % n, "cp125%d" % n) for n in range(0, 9)] + [("KOI8-R", "koi8_r")])


def decode_sb(enc, data):
    return data.decode(SINGLE_BYTE[enc], "strict")


def repertoire_edge(enc):
    """(inside, outside): characters >= U+00A0 just inside and just outside the encoding's repertoire - every Latin-1
    character U+00A1..U+00FF on either side, plus a few from other blocks"""
    codec = SINGLE_BYTE[enc]
    inside, outside = [], []
    # U+00AD has a script of its own (soft-hyphen); vendors disagree about U+00AA in windows-1253 (ICU maps it, the
    # Microsoft / Python table does not)
    skip = {0xAD} | ({0xAA} if enc == "windows-1253" else set())
    for c in [x for x in range(0xA1, 0x100) if x not in skip] + [0x20AC, 0x0416, 0x0434, 0x03A9, 0x05D0, 0x0E01, 0x0160, 0x0152, 0x2018, 0x0102]:
        try:
            chr(c).encode(codec, "strict")
            inside.append(c)
        except UnicodeError:
            outside.append(c)
    return inside, outside


def scripts_sb(r, enc, thorough):
    inside, outside = repertoire_edge(enc)
    el = lambda *kids, **kw: ("el", G.u("r"), kw.get("attrs", []), list(kids))
    out = []
    if outside:
        # every Latin-1 character the encoding lacks, one document each group of 8, as text and as attribute value
        lat = [c for c in outside if c < 0x100]
        for i in range(0, len(lat), 8 if not thorough else 2):
            grp = lat[i:i + (8 if not thorough else 2)]
            txt = []
            for c in grp:
                txt += [97, c]
            out.append(("outside-latin1", ("el", G.u("r"), [(G.u("k"), txt)], [("t", txt + [98], None)])))
        oth = [c for c in outside if c >= 0x100]
        if oth:
            out.append(("outside-other", el(("t", [97] + oth + [98], None))))
    if inside:
        for i in range(0, len(inside), 24):
            grp = inside[i:i + 24]
            out.append(("inside", ("el", G.u("r"), [(G.u("k"), grp)], [("t", [97] + grp + [98], None)])))
    try:
        chr(0xAD).encode(SINGLE_BYTE[enc], "strict")
        out.append(("inside", el(("t", [97, 0xAD, 98], None))))
    except UnicodeError:
        out.append(("soft-hyphen", ("el", G.u("r"), [(G.u("k"), [97, 0xAD, 98])], [("t", [97, 0xAD, 98], None)])))
    for q in range(3 if thorough else 1):
        mix = [r.choice(inside + outside + ASCII) for _ in range(r.range(20, 80))]
        out.append(("mixed", el(("t", mix, None), ("el", G.u("e"), [(G.u("a"), mix[:10])], []))))
    return out
